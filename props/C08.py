"""C08 -- clipping keeps every selected value and blanks everything else.

Functions under contract (real bodies): masking.find_fill_value, mask_grid_data_array, calculate_grid_mask_bounds, mask_grid_dataset (with the
netCDF work files as a recording file model), utils.to_netcdf_with_fixes, disable_default_fill_value, dataset_like, _update_no_clobber;
conventions.ugrid.update_connectivity / _masked_integer_data_array and the row selection of UGrid.apply_clip_mask.
Specification (grids).  A mask dataset holds boolean arrays m(dims) (any number, any extents).  W = the tightest index window containing
every True entry of every mask.  For a data variable v: the applicable mask is the first whose dimensions all belong to v; fill(v) is NaN
for float variables, the _FillValue / missing_value attribute for integer variables that have one, and nothing otherwise.  Then
  out[v][i] = v[W.lo + i]            where the applicable mask is True at W.lo + i, or there is no applicable mask / no fill value
  out[v][i] = fill(v)                elsewhere
attributes and encoding of v kept; coordinates only cropped; the window is tight (each side touches a selected entry).
Library contracts: XR-WHERE, XR-ISEL, XR-NETCDF-ROUNDTRIP (a dataset written to a work file and read back with open_mfdataset has the same
variables, values and attributes; decoding details are the bounded native part), XR-MAYBE-PROMOTE.
"""
from __future__ import annotations

import itertools

import z3

from contracts import inputs
from pyvc import core
from pyvc.api import (FIN, PathEnd, SFloat, Variable, XDataArray, XDataset, add_var, call, cls, expect_ok, expect_raise, fn, method,
                      mk_bool, mk_int, new_interp, outcome, s_and, s_eq, s_implies, s_ite, s_not, s_or, sym_array, sym_size, zint)
from pyvc.lib import numpy_ as np
from pyvc.lib.numpy_ import BOOL, FLOAT64, INT32, INT64, NDArray

from props._contracts import scn_mesh_mask_contract  # noqa: F401,E402
PROPERTY = 'C08'
MOD = 'emsarray.masking'


def scenarios(tier):
    out = [{'name': 'find_fill_value', 'fn': 'scn_fill_value', 'kwargs': {}}]
    for layout in (('y', 'x'), ('t', 'y', 'x'), ('x', 't', 'y'), ('y', 'x', 'b'), ('t',), ('y',)):
        out.append({'name': f'mask_grid_data_array[variable{layout}]', 'fn': 'scn_mask_array', 'kwargs': {'layout': layout}})
    out.append({'name': 'mask_grid_data_array[several masks: the first whose dimensions fit]', 'fn': 'scn_mask_choice', 'kwargs': {}})
    out.append({'name': 'calculate_grid_mask_bounds[one mask]', 'fn': 'scn_bounds', 'kwargs': {'masks': 1}})
    out.append({'name': 'calculate_grid_mask_bounds[staggered masks]', 'fn': 'scn_bounds', 'kwargs': {'masks': 2}})
    out.append({'name': 'calculate_grid_mask_bounds[empty mask is refused]', 'fn': 'scn_bounds_empty', 'kwargs': {}})
    for edges in ('none', 'both', 'dimension'):
        out.append({'name': f'UGrid.apply_clip_mask data rows[edges={edges}]', 'fn': 'scn_mesh_data', 'kwargs': {'edges': edges}})
    out.append({'name': 'UGrid.apply_clip_mask data rows[edges=none, node coordinates and a face label held as xarray coordinates]', 'fn': 'scn_mesh_data',
                'kwargs': {'edges': 'none', 'coords_as': 'coords'}})
    if tier == 'thorough':
        for fill, si in (('int_fill', 0), ('none', 0), ('none', 1), ('nan', 1)):
            for edges in ('none', 'both'):
                out.append({'name': f'UGrid.apply_clip_mask data rows[edges={edges}, {fill}, start_index={si}]', 'fn': 'scn_mesh_data',
                            'kwargs': {'edges': edges, 'fill': fill, 'si': si}})
        for layout in (('x', 'y'), ('b', 'y', 't', 'x'), ('t', 'x')):
            out.append({'name': f'mask_grid_data_array[variable{layout}]', 'fn': 'scn_mask_array', 'kwargs': {'layout': layout}})
    for ci, cfg in enumerate(GRID_CONFIGS):
        out.append({'name': f'mask_grid_dataset[{cfg[0]}]', 'fn': 'scn_grid_dataset', 'kwargs': {'ci': ci}})
    from props._contracts import mesh_mask_contract_scenarios
    out += mesh_mask_contract_scenarios()        # the mesh clip mask taken as given by the mesh scenarios (verified by C07), re-verified here
    out.append({'name': 'Convention.clip = apply_clip_mask(make_clip_mask(geometry as given, buffer), work_dir)', 'fn': 'scn_clip_entry', 'kwargs': {}})
    return out


def _da(c, name, dims, sizes, kind, attrs=None, dtype=None):
    arr = sym_array(c, name, tuple(sizes[d] for d in dims), kind, dtype)
    return XDataArray(data=arr, dims=dims, name=name, attrs=dict(attrs or {}))


def scn_fill_value(c):
    it = new_interp()
    f = fn(it, MOD, 'find_fill_value')
    sizes = {'y': sym_size(c, 'ny'), 'x': sym_size(c, 'nx')}
    from pyvc.lib.floats import SFloat as SF
    for dt, kind in ((FLOAT64, 'floatnan'), (np.FLOAT32 if hasattr(np, 'FLOAT32') else FLOAT64, 'floatnan')):
        v = expect_ok(c, f'float variable ({dt})', lambda: call(it, f, _da(c, 'a', ('y', 'x'), sizes, kind, dtype=dt)))
        c.check(f'a float variable ({dt}) without attributes is blanked with NaN', isinstance(v, SF) and v.is_nan() is True)
    for dt in (INT32, INT64, np.INT16 if hasattr(np, 'INT16') else INT32, BOOL):
        expect_raise(c, f'an integer / boolean variable ({dt}) without a fill attribute cannot be blanked: ValueError',
                     lambda: call(it, f, _da(c, 'b', ('y', 'x'), sizes, 'bool' if dt is BOOL else 'int', dtype=dt)), ValueError)
    fv, mv = c.fresh_int('fv'), c.fresh_int('mv')
    for dt, kind in ((INT32, 'int'), (FLOAT64, 'floatnan')):
        v = expect_ok(c, '_FillValue attribute', lambda: call(it, f, _da(c, 'c', ('y', 'x'), sizes, kind, {'_FillValue': fv}, dtype=dt)))
        c.check(f'a variable ({dt}) with a _FillValue attribute is blanked with it', v is fv)
        v = expect_ok(c, 'missing_value attribute', lambda: call(it, f, _da(c, 'd', ('y', 'x'), sizes, kind, {'missing_value': mv}, dtype=dt)))
        c.check(f'a variable ({dt}) with only a missing_value attribute is blanked with it', v is mv)
        v = expect_ok(c, 'both attributes', lambda: call(it, f, _da(c, 'e', ('y', 'x'), sizes, kind, {'missing_value': mv, '_FillValue': fv}, dtype=dt)))
        c.check(f'_FillValue wins over missing_value ({dt})', v is fv)


def _mask_ds(c, sizes, names=(('cell_mask', ('y', 'x')),)):
    mask = XDataset(attrs={'type': 'mask'})
    for name, dims in names:
        add_var(mask, name, dims, sym_array(c, name, tuple(sizes[d] for d in dims), 'bool'))
    return mask


def _point(c, dims, sizes):
    p = {}
    for d in dims:
        q = c.fresh_int(d + 'q')
        c.assume(q >= 0)
        c.assume(q < sizes[d])
        p[d] = q
    return p


def scn_mask_array(c, layout):
    it = new_interp()
    f = fn(it, MOD, 'mask_grid_data_array')
    sizes = {d: sym_size(c, 'n' + d) for d in ('t', 'y', 'x', 'b')}
    mask = _mask_ds(c, sizes)
    covered = {'y', 'x'} <= set(layout)
    p = _point(c, layout, sizes)
    i = tuple(p[d] for d in layout)
    fv = c.fresh_int('fv')
    cases = [('float', 'floatnan', FLOAT64, {'units': 'degC'}), ('int + _FillValue', 'int', INT32, {'_FillValue': fv, 'long_name': 'flag'}),
             ('int + missing_value', 'int', INT64, {'missing_value': fv}), ('int without fill', 'int', INT32, {'long_name': 'count'})]
    from pyvc.lib.numpy_ import INT16
    from pyvc.lib.floats import SFloat as _SF
    wide = _SF.fresh('wide_fill')      # a fill value stored with a wider type than the variable (a double on a short): any double, NaN included
    cases.append(('int16 + missing_value stored as a double', 'int', INT16, {'missing_value': wide}))
    for label, kind, dt, attrs in cases:
        da = _da(c, 'v', layout, sizes, kind, attrs, dtype=dt)
        da.variable.encoding['chunks'] = 'original'
        out = expect_ok(c, f'{label}: returns', lambda: call(it, f, mask, da))
        can = label != 'int without fill'
        if not covered or not can:
            c.check(f'{label}: {"no mask fits" if not covered else "cannot hold missing values"} -- the variable is returned untouched', out is da)
            continue
        c.check(f'{label}: same dimensions', out.variable.dims == tuple(layout))
        c.check(f'{label}: attributes kept', out.variable.attrs == attrs)
        c.check(f'{label}: encoding kept', out.variable.encoding == {'chunks': 'original'})
        m = mask._vars['cell_mask'].arr.fn((p['y'], p['x']))
        got, was = out.variable.arr.fn(i), da.variable.arr.fn(i)
        if kind == 'floatnan':
            c.check(f'{label}: a selected entry keeps its value', s_implies(m, got.same_bits(was)))
            c.check(f'{label}: an entry outside the selection is NaN', s_implies(s_not(m), got.is_nan()))
        elif 'stored as a double' in label:
            from pyvc.lib.numpy_ import to_float
            c.check(f'{label}: a selected entry keeps its value', s_implies(m, got.same_bits(to_float(was)) if hasattr(got, 'same_bits') else s_eq(got, was)))
            c.check(f'{label}: an entry outside the selection holds the declared fill value itself (a missing value when the files are decoded), not a '
                    'number of the narrow type', s_implies(s_not(m), got.same_bits(wide) if hasattr(got, 'same_bits') else False))
        else:
            c.check(f'{label}: a selected entry keeps its value', s_implies(m, s_eq(got, was)))
            c.check(f'{label}: an entry outside the selection holds the declared fill value', s_implies(s_not(m), s_eq(got, fv)))
        c.check(f'{label}: the input array is not modified', da.variable.arr.fn(i) is not None and da.variable.attrs == attrs)


def scn_mask_choice(c):
    it = new_interp()
    f = fn(it, MOD, 'mask_grid_data_array')
    ny, nx = sym_size(c, 'ny'), sym_size(c, 'nx')
    sizes = {'j_centre': ny, 'i_centre': nx, 'j_left': ny, 'i_left': nx + 1, 'j_back': ny + 1, 'i_back': nx, 'j_node': ny + 1, 'i_node': nx + 1, 't': sym_size(c, 'nt')}
    names = (('face_mask', ('j_centre', 'i_centre')), ('left_mask', ('j_left', 'i_left')), ('back_mask', ('j_back', 'i_back')), ('node_mask', ('j_node', 'i_node')))
    mask = _mask_ds(c, sizes, names)
    for mname, mdims in names:
        for layout in ((('t',) + mdims), (mdims[1], 't', mdims[0])):
            da = _da(c, 'v', layout, sizes, 'floatnan', {'units': 'u'}, dtype=FLOAT64)
            out = expect_ok(c, f'{mname} {layout}', lambda: call(it, f, mask, da))
            p = _point(c, layout, sizes)
            m = mask._vars[mname].arr.fn(tuple(p[d] for d in mdims))
            got, was = out.variable.arr.fn(tuple(p[d] for d in layout)), da.variable.arr.fn(tuple(p[d] for d in layout))
            c.check(f'variable{layout}: masked with {mname} -- selected entries kept', s_implies(m, got.same_bits(was)))
            c.check(f'variable{layout}: masked with {mname} -- others NaN', s_implies(s_not(m), got.is_nan()))


def _bounds_setup(c, masks):
    ny, nx = sym_size(c, 'ny'), sym_size(c, 'nx')
    if masks == 1:
        sizes = {'y': ny, 'x': nx}
        names = (('cell_mask', ('y', 'x')),)
    else:
        sizes = {'j_centre': ny, 'i_centre': nx, 'j_node': ny + 1, 'i_node': nx + 1}
        names = (('face_mask', ('j_centre', 'i_centre')), ('node_mask', ('i_node', 'j_node')))
    return sizes, names, _mask_ds(c, sizes, names)


def scn_bounds(c, masks):
    it = new_interp()
    f = fn(it, MOD, 'calculate_grid_mask_bounds')
    sizes, names, mask = _bounds_setup(c, masks)
    kind_, b = outcome(lambda: call(it, f, mask))
    if kind_ == 'raise':
        # only a mask without any selected entry may be refused (obligations on that path: scenario "empty mask is refused")
        from pyvc.api import exc_matches
        c.check('the only error is ValueError for a mask that selects nothing', exc_matches(b, ValueError))
        pts = {mn: _point(c, md, sizes) for mn, md in names}
        _ghost_global(c, [tuple(p.values()) for p in pts.values()] + [tuple(reversed(list(p.values()))) for p in pts.values()])
        c.check('... and then some mask really selects nothing', s_not(s_and(*[mask._vars[mn].arr.fn(tuple(pts[mn][d] for d in md)) for mn, md in names])))
        raise PathEnd()
    c.check('one slice per mask dimension', isinstance(b, dict) and set(b) == {d for _, dims in names for d in dims} and all(isinstance(s, slice) for s in b.values()))
    if not isinstance(b, dict):
        raise PathEnd()
    sels = list(getattr(c, 'selections', []))
    c.check('two least-witness searches (front, back) per mask dimension', len(sels) == 2 * sum(len(md) for _, md in names))
    if len(sels) != 2 * sum(len(md) for _, md in names):
        raise PathEnd()
    k = 0
    for mname, mdims in names:
        arr = mask._vars[mname].arr
        p = _point(c, mdims, sizes)
        m = arr.fn(tuple(p[d] for d in mdims))
        for d in mdims:
            s = b[d]
            c.check(f'{mname}/{d}: a plain window (no step)', s.step is None)
            lo, hi = s.start, s.stop
            other = [p[x] for x in mdims if x != d][0]
            _ghost_dim(c, sels[k], sels[k + 1], sizes[d], p[d], other, lo, hi)
            k += 2
            c.check(f'{mname}/{d}: the window lies inside the dimension', s_and(mk_bool(zint(lo) >= 0), mk_bool(zint(hi) <= zint(sizes[d])), mk_bool(zint(lo) < zint(hi))))
            c.check(f'{mname}/{d}: every selected entry lies inside the window', s_implies(m, s_and(mk_bool(zint(lo) <= zint(p[d])), mk_bool(zint(p[d]) < zint(hi)))))
            # tight: the first and the last row of the window hold a selected entry
            c.check(f'{mname}/{d}: the window is tight (its first and last rows hold a selected entry)',
                    s_and(sels[k - 2].keep(lo), sels[k - 1].keep(sizes[d] - hi)))


def _ghost_global(c, pairs):
    """ghost: instances of  mask[r] => any(mask)  for the global reductions"""
    for quant, o in list(getattr(c, 'quantifiers', [])):
        if len(o) == 0:
            for r in pairs:
                if len(r) == len(quant.axes):
                    quant.instantiate(o, r)


def _ghost_dim(c, sel_f, sel_r, n, q, other, lo, hi):
    """ghost lemma calls for one mask dimension: sel_f / sel_r enumerate the rows holding a selected entry from the front / from the
    back; instantiate least-witness facts at row q (the Skolem entry), at the window ends, and  mask[q, other] => any(mask[q, :])."""
    nb = len(getattr(c, 'quantifiers', []))
    for s_, cands in ((sel_f, [q, lo]), (sel_r, [n - 1 - q, n - hi, n - 1 - lo])):
        for x in cands:
            r = s_.rank(x)
            s_.sel(r)
            s_.sel(0)
    for quant, o in list(getattr(c, 'quantifiers', []))[nb:]:
        if len(quant.axes) == 1:
            quant.instantiate(o, (other,))


def scn_bounds_empty(c):
    it = new_interp()
    f = fn(it, MOD, 'calculate_grid_mask_bounds')
    sizes = {'y': sym_size(c, 'ny'), 'x': sym_size(c, 'nx')}
    mask = XDataset()
    add_var(mask, 'cell_mask', ('y', 'x'), NDArray((sizes['y'], sizes['x']), lambda i: False, BOOL))
    expect_raise(c, 'a mask that selects nothing is refused with ValueError', lambda: call(it, f, mask), ValueError)


NATIVE = {'': 'apply'}


# ---- end to end on grids ------------------------------------------------------------------------------------------------------------
GRID_CONFIGS = [
    ('CFGrid1D', {}, ('lat', 'lon'), 'cell_mask'), ('CFGrid2D', {'bounds': True}, ('j', 'i'), 'cell_mask'),
    ('ShocStandard', {}, ('j_centre', 'i_centre'), 'face_mask'),
]


def scn_grid_dataset(c, ci):
    from pyvc.lib.stdlib import OpaqueValue, PathModel
    conv_name, kw, fdims, mname = GRID_CONFIGS[ci]
    it = new_interp()
    extra = [('temp', ('t',) + fdims, 'floatnan'), ('flipped', (fdims[1], 't', fdims[0]), 'floatnan'), ('count', fdims, 'int'), ('scalar', ('t',), 'floatnan')]
    ds, conv = inputs.make_convention(it, c, conv_name, extra=extra, **kw)
    ds.attrs['title'] = 'model'
    ds._vars['temp'].attrs['units'] = 'degC'
    # attributes that xarray may move into the encoding when it reads the work files back (the CF coordinates list of a dataset opened
    # without coordinate decoding, a packing attribute): either way they must not be lost, nor end up in both places
    ds._vars['temp'].attrs['coordinates'] = 'lat lon'
    ds._vars['count'].attrs['scale_factor'] = 2
    sizes = ds._sizes()
    names = ((mname, fdims),)
    if conv_name == 'ShocStandard':
        names = (('face_mask', ('j_centre', 'i_centre')), ('left_mask', ('j_left', 'i_left')), ('back_mask', ('j_back', 'i_back')), ('node_mask', ('j_node', 'i_node')))
    mask = _mask_ds(c, sizes, names)
    f = fn(it, MOD, 'mask_grid_dataset')
    work = PathModel(OpaqueValue('work_dir'))
    from pyvc.api import check_unmodified, snapshot
    snap_ds, snap_mask = snapshot(ds), snapshot(mask)
    kind_, out = outcome(lambda: call(it, f, ds, mask, work))
    check_unmodified(c, ds, snap_ds, 'the dataset being clipped')
    check_unmodified(c, mask, snap_mask, 'the clip mask')
    if kind_ == 'raise':
        from pyvc.api import exc_matches
        c.check('the only error is ValueError for a mask that selects nothing', exc_matches(out, ValueError))
        raise PathEnd()
    c.check('same data variables in the same order', list(out._iterate()) == list(ds._iterate()))
    c.check('same coordinates', out._coord_names == ds._coord_names)
    c.check('global attributes kept', out.attrs == ds.attrs)
    # the window: read off the slices the real code applied (their correctness: calculate_grid_mask_bounds scenarios)
    opened = [e for e in c.events if e[0] == 'open_mfdataset']
    c.check('the work files are combined once', len(opened) == 1)
    crops = [e for e in c.events if e[0] == 'Dataset.isel' and e[1] is ds]
    c.check('the dataset is cropped once, to one window per mask dimension', len(crops) == 1 and set(crops[0][2]) == {d for _, md in names for d in md})
    if len(crops) != 1:
        raise PathEnd()
    window = crops[0][2]
    mcrops = [e for e in c.events if e[0] == 'Dataset.isel' and e[1] is mask]
    c.check('the mask is cropped to the same window', len(mcrops) == 1 and mcrops[0][2] is window or (len(mcrops) == 1 and mcrops[0][2] == window))
    lo = {d: s_.start for d, s_ in window.items()}
    hi = {d: s_.stop for d, s_ in window.items()}
    osizes = out._sizes()
    for d in window:
        c.assume(mk_bool(zint(lo[d]) >= 0))          # established by the calculate_grid_mask_bounds scenarios
        c.assume(mk_bool(zint(hi[d]) <= zint(sizes[d])))
        c.assume(mk_bool(zint(lo[d]) < zint(hi[d])))
        c.check(f'dimension {d!r} is cropped to the window', s_eq(osizes.get(d), hi[d] - lo[d]))
    for d in sizes:
        if d not in window:
            c.check(f'dimension {d!r} is not a mask dimension and keeps its size', s_eq(osizes.get(d), sizes[d]))
    mask_of = {name: next((mn for mn, md in names if set(md) <= set(ds._vars[name].dims)), None) for name in ds._vars}
    for name, vi in ds._vars.items():
        vo = out._vars.get(name)
        c.check(f'{name!r} is present', vo is not None)
        if vo is None:
            continue
        c.check(f'{name!r}: dimensions kept', vo.dims == vi.dims)
        both = {**vo.encoding, **vo.attrs}
        c.check(f'{name!r}: every attribute is kept, as an attribute or (if reading the work files decoded it) in the encoding',
                all(k in both and both[k] == v for k, v in vi.attrs.items()) and set(vo.attrs) <= set(vi.attrs))
        c.check(f'{name!r}: no name is in both the attributes and the encoding (such a variable cannot be written)', not (set(vo.attrs) & set(vo.encoding)))
        p = {}
        for d in vi.dims:
            q = c.fresh_int(f'{d}_q')
            c.assume(q >= 0)
            c.assume(q < osizes[d])
            p[d] = q
        src = tuple(p[d] + lo[d] if d in window else p[d] for d in vi.dims)
        got, was = vo.arr.fn(tuple(p[d] for d in vi.dims)), vi.arr.fn(src)
        same = got.same_bits(was) if isinstance(got, SFloat) else s_eq(got, was)
        mn = mask_of[name] if name not in ds._coord_names else None
        if mn is None or not isinstance(got, SFloat):
            why = 'a coordinate' if name in ds._coord_names else ('no mask fits' if mn is None else 'cannot hold missing values')
            c.check(f'{name!r} ({why}): cropped to the window, values untouched', same)
        else:
            md = dict(names)[mn]
            m = mask._vars[mn].arr.fn(tuple(p[d] + lo[d] for d in md))
            c.check(f'{name!r}: every selected entry keeps its value (mask {mn})', s_implies(m, same))
            c.check(f'{name!r}: every other entry inside the window is missing', s_implies(s_not(m), got.is_nan()))
    return out




# ---- meshes ------------------------------------------------------------------------------------------------------------------------
def _mesh_mask(c, ds, has_edges):
    """VALID-UGRID-MASK (what mask_from_face_indexes produces, C07): new_X_index[n] is NaN for a dropped element and the rank of n among
    the kept elements otherwise; _FillValue encoding = the topology fill value."""
    from pyvc.lib.seq import Selection
    from pyvc.lib.floats import NAN
    info = ds.info
    mask = XDataset(attrs={'title': 'UGRID dataset mask'})
    sels = {}
    fill = 999999
    for what, n in (('face', info['nface']), ('edge', info['nedge']), ('node', info['nnode'])):
        if what == 'edge' and not has_edges:
            continue
        keep = c.fresh_fn('keep_' + what, z3.IntSort(), z3.BoolSort())
        sel = Selection(n, (lambda keep: lambda k: mk_bool(keep(zint(k))))(keep), name='kept_' + what)
        sels[what] = (keep, sel)
        reg = getattr(c, 'mask_selections', None)       # SELECTION-EXTENSIONALITY: the code's own enumeration of the same rows is this one
        if reg is None:
            reg = c.mask_selections = []
        reg.append(sel)

        def at(i, keep=keep, sel=sel):
            k = i[0]
            return SFloat(mk_int(z3.If(keep(zint(k)), FIN, NAN)), sel.rank(k))
        v = Variable((f'old_{what}_index',), NDArray((n,), at, FLOAT64), {}, {'dtype': INT32, '_FillValue': fill})
        mask._vars[f'new_{what}_index'] = v
    return mask, sels, fill


def _valid_mesh(c, it, edges, fill, si, extra, coords_as='vars'):
    """a UGRID dataset whose face_node (and edge_node) tables encode abstract, valid tables"""
    from props.C10 import Table
    ds = inputs.ugrid_mesh(c, fill=fill, start_index=si, edges=edges, extra=extra, coords_as=coords_as)
    info = ds.info
    tables = {}
    if edges in ('both', 'edge_node'):
        # every table carries its own index base: edge_node uses the other one than face_node
        t = Table(c, 'edge_node', info['nedge'], 2, 'none', 1 - si, False, 'nedge', 'Two', info['nnode'])
        ds._vars['edge_node'] = t.variable
        tables['edge_node'] = t
    conv = it.instantiate(cls(it, 'emsarray.conventions.ugrid', 'UGrid'), [ds], {})
    return ds, conv, tables


def scn_mesh_data(c, edges, fill='int_fill', si=1, coords_as='vars'):
    """UGrid.apply_clip_mask: row selection of data variables and renumbering of the connectivity tables"""
    from pyvc.lib.stdlib import OpaqueValue, PathModel
    it = new_interp(use=[])
    has_edges = edges != 'none'
    extra = [('temp', ('t', 'nface'), 'floatnan'), ('flipped', ('nface', 't'), 'floatnan'), ('node_val', ('nnode',), 'floatnan'), ('count', ('nface',), 'int'), ('scalar', ('t',), 'floatnan')]
    if has_edges:
        extra.append(('edge_val', ('t', 'nedge'), 'floatnan'))
    ds, conv, tables = _valid_mesh(c, it, edges, fill, si, extra, coords_as)
    if coords_as == 'coords':
        add_var(ds, 'face_label', ('nface',), sym_array(c, 'face_label', (ds.info['nface'],), 'int'), {'long_name': 'label'}, coord=True)
    ds.attrs['title'] = 'mesh run'
    ds._vars['temp'].attrs['units'] = 'degC'
    info = ds.info
    mask, sels, fillv = _mesh_mask(c, ds, has_edges)
    for n_ in (info['nnode'], info['nface']) + ((info['nedge'],) if has_edges else ()):
        c.assume(n_ < fillv - 1)          # VALID-UGRID-MASK: the mask fill value exceeds every index (C10: sensible_fill_value)
    # VALID-UGRID-MASK: the nodes (and edges) of a kept face are kept -- instantiated where the tables are read (C07 proves it for
    # the masks make_clip_mask builds)
    keepF, keepN = sels['face'][0], sels['node'][0]
    before = {k: (v.dims, v.arr, dict(v.attrs)) for k, v in ds._vars.items()}
    work = PathModel(OpaqueValue('work_dir'))
    kf = c.fresh_int('kf')        # a row of the clipped face tables
    j = c.fresh_int('jcol')
    c.assume(kf >= 0)
    c.assume(j >= 0)
    c.assume(j < info['maxn'])
    selF = sels['face'][1]
    c.assume(kf < selF.count)
    f_old = selF.sel(kf)
    node = info['mesh_node'](f_old, j)
    c.assume(z3.Implies(zint(j) < zint(info['mesh_count'](f_old)), keepN(zint(node))))
    if 'edge_node' in tables:
        ke, bcol = c.fresh_int('ke'), c.fresh_int('bcol')
        selE = sels['edge'][1]
        for q, n_ in ((ke, selE.count), (bcol, 2)):
            c.assume(q >= 0)
            c.assume(q < n_)
        e_old = selE.sel(ke)
        enode = tables['edge_node'].val(e_old, bcol)
        c.assume(keepN(zint(enode)))                 # VALID-UGRID-MASK: the nodes of a kept edge are kept
    mask_before = {k: (v.arr, v.arr.fn, dict(v.attrs), dict(v.encoding)) for k, v in mask._vars.items()}
    from pyvc.api import check_unmodified, snapshot
    snap_ds = snapshot(ds)
    out = expect_ok(c, 'apply_clip_mask returns', lambda: method(it, conv, 'apply_clip_mask', mask, work))
    check_unmodified(c, ds, snap_ds, 'the dataset being clipped')
    # frame: applying a mask does not change the mask (it is applied again to the next dataset with the same geometry)
    for mk_, (arr0, fn0, attrs0, enc0) in mask_before.items():
        mq = c.fresh_int('mq_' + mk_)
        c.assume(mq >= 0)
        c.assume(mq < arr0.shape[0])
        now = mask._vars[mk_]
        c.check(f'the clip mask is not modified by applying it ({mk_})',
                s_and(now.arr is arr0, now.attrs == attrs0, now.encoding == enc0, now.arr.fn((mq,)).same_bits(fn0((mq,)))))
    osizes = out._sizes()
    dim_sel = {'nface': sels['face'][1], 'nnode': sels['node'][1]}
    if has_edges:
        dim_sel['nedge'] = sels['edge'][1]
    for d, sel in dim_sel.items():
        c.check(f'{d}: as many rows as selected elements', s_eq(osizes.get(d), sel.count))
    c.check('same data variables in the same order', list(out._iterate()) == list(ds._iterate()))
    c.check('the coordinates of the dataset are the coordinates of the result, no more and no fewer', out._coord_names == ds._coord_names,
            note=f'{sorted(map(str, out._coord_names))} vs {sorted(map(str, ds._coord_names))}')
    c.check('global attributes kept', out.attrs == ds.attrs)
    geometry = {'mesh', 'face_node', 'edge_node', 'node_x', 'node_y'}
    for name, (dims, arr, attrs) in before.items():
        vo = out._vars.get(name)
        c.check(f'{name!r} is present', vo is not None)
        if vo is None or name in ('face_node', 'edge_node', 'mesh'):
            continue
        c.check(f'{name!r}: dimensions kept', vo.dims == dims)
        c.check(f'{name!r}: attributes kept', vo.attrs == attrs)
        p, src = [], []
        for d in dims:
            q = c.fresh_int(f'{d}_q')
            c.assume(q >= 0)
            c.assume(q < osizes[d])
            p.append(q)
            src.append(dim_sel[d].sel(q) if d in dim_sel else q)
        got, was = vo.arr.fn(tuple(p)), arr.fn(tuple(src))
        c.check(f'{name!r}: row k of the result is the k-th selected row, values untouched' if set(dims) & set(dim_sel) else f'{name!r}: no mesh dimension, passes through unchanged',
                got.same_bits(was) if isinstance(got, SFloat) else s_eq(got, was))
    # ---- face_node of the clipped mesh (C09: renumbered, same start_index, integer on disk) ------------------------------------
    vo = out._vars.get('face_node')
    vi_attrs = before['face_node'][2]
    if vo is not None:
        c.check('face_node: dimension order kept', vo.dims == before['face_node'][0])
        c.check('face_node: start_index kept', vo.attrs.get('start_index') == vi_attrs.get('start_index'))
        c.check('face_node: no _FillValue attribute next to the _FillValue encoding', '_FillValue' not in vo.attrs and vo.encoding.get('_FillValue') is not None)
        c.check('face_node: saved with the integer type of the input', vo.encoding.get('dtype') is not None and getattr(vo.encoding.get('dtype'), 'kind', None) == 'i')
        got = vo.arr.fn((kf, j))
        c.check('face_node: entries are renumbered indexes with missing entries (masked-integer representation)', isinstance(got, SFloat))
        if not isinstance(got, SFloat):
            raise PathEnd()
        present = mk_bool(zint(j) < zint(info['mesh_count'](f_old)))
        selN = sels['node'][1]
        c.check('face_node: row k lists the nodes of the k-th selected face -- an entry is missing exactly where the face has no such node',
                s_eq(got.is_nan(), s_not(present)))
        c.check('face_node: ... and a present entry is the NEW index of that node (its rank among the kept nodes) plus start_index',
                s_implies(present, s_and(got.is_fin(), s_eq(got.val, selN.rank(node) + si))))
    if 'edge_node' in tables and out._vars.get('edge_node') is not None:
        vo = out._vars['edge_node']
        c.check('edge_node: dimension order and start_index kept', vo.dims == before['edge_node'][0] and vo.attrs.get('start_index') == before['edge_node'][2].get('start_index'))
        got = vo.arr.fn((ke, bcol))
        c.check('edge_node: entries are renumbered indexes (masked-integer representation)', isinstance(got, SFloat))
        if not isinstance(got, SFloat):
            raise PathEnd()
        c.check('edge_node: row k lists the NEW indexes of the nodes of the k-th selected edge',
                s_and(got.is_fin(), s_eq(got.val, sels['node'][1].rank(enode) + (1 - si))))
        c.check('edge_node: saved as an integer table', getattr(vo.encoding.get('dtype'), 'kind', None) == 'i')
    return out


def scn_clip_entry(c):
    """Convention.clip (the one-step entry point behind dataset.ems.clip and the command line): the clip region reaches make_clip_mask as it was
    given -- any geometry type, not repaired, not reduced to its areal part --, with the buffer, and the mask it returns is applied as it is."""
    from pyvc.contract import Contract
    from pyvc.core import SVal
    from pyvc.lib.stdlib import OpaqueValue, PathModel
    it = new_interp()
    ds, conv = inputs.make_convention(it, c, 'CFGrid1D')
    calls = []
    mask_tok, out_tok = OpaqueValue('mask'), OpaqueValue('clipped dataset')

    def make(it_, a):
        calls.append(('make', a.get('clip_geometry'), a.get('buffer')))
        return mask_tok

    def apply_(it_, a):
        calls.append(('apply', a.get('clip_mask'), a.get('work_dir')))
        return out_tok
    for mod, q, post in (('emsarray.conventions.grid', 'CFGrid.make_clip_mask', make), ('emsarray.conventions.grid', 'CFGrid.apply_clip_mask', apply_)):
        it.contracts[(mod, q)] = Contract(mod, q, post=post, verified_by='C07 (make_clip_mask) / C08 (apply_clip_mask)')
    geom = SVal(z3.FreshConst(core.GeomSort, 'region'))
    work = PathModel(OpaqueValue('work_dir'))
    buf = c.fresh_int('buffer')
    out = expect_ok(c, 'clip returns', lambda: method(it, conv, 'clip', geom, work, buffer=buf))
    c.check('one mask is made and then applied', [x[0] for x in calls] == ['make', 'apply'])
    if [x[0] for x in calls] != ['make', 'apply']:
        raise PathEnd()
    c.check('the clip region is handed to make_clip_mask as it was given (lines, points and collections included; nothing repaired or dropped), with the buffer',
            calls[0][1] is geom and calls[0][2] is buf)
    c.check('the mask just made is applied, with the work directory given', calls[1][1] is mask_tok and calls[1][2] is work)
    c.check('the clipped dataset is returned as it is', out is out_tok)
