"""C19 -- plot artists pair every value with its own cell.

Under contract (real bodies): Convention.make_poly_collection, make_patch_collection, make_quiver, plot.polygons_to_collection,
plot.animate_on_figure (the pairing lines and the frame callback), DimensionConvention.ravel (C03), utils.name_to_data_array.
Callee contracts: polygons / mask (one cached mask array) / face_centres (contracts/base.py); matplotlib / cartopy objects are
recorders (MPL-POLYCOLLECTION / MPL-QUIVER pair their arguments by position: assumed).
"""
from __future__ import annotations

import z3

from contracts import inputs
from contracts.base import FACE_CENTRES, POLY_KEYS, Outline, abstract_polygons
from pyvc import core
from pyvc.api import (PathEnd, attr, call, cls, expect_ok, expect_raise, fn, method, mk_bool, mk_int, new_interp, outcome,
                      s_and, s_eq, s_implies, s_not, sym_array, sym_size, truthy, zint)
from pyvc.core import Maybe
from pyvc.lib.numpy_ import NDArray, unravel
from pyvc.lib.seq import SymSeq
from pyvc.lib.stdlib import OpaqueValue, Recorder

from props._contracts import polygon_contract_scenarios, scn_polygon_contract  # noqa: F401

PROPERTY = 'C19'
CONFIGS = [
    ('CFGrid1D', {}, ('lat', 'lon')), ('CFGrid1D', {}, ('lon', 'lat')), ('CFGrid2D', {}, ('j', 'i')), ('ShocStandard', {}, ('i_centre', 'j_centre')),
    ('UGrid', {'edges': 'none'}, ('nface',)),
]


def scenarios(tier):
    out = []
    for ci, cfg in enumerate(CONFIGS):
        for how in ('name', 'array'):
            out.append({'name': f'make_poly_collection[{cfg[0]} {cfg[2]}, by {how}]', 'fn': 'scn_poly', 'kwargs': {'ci': ci, 'how': how}})
        out.append({'name': f'make_poly_collection overrides[{cfg[0]} {cfg[2]}]', 'fn': 'scn_overrides', 'kwargs': {'ci': ci}})
        out.append({'name': f'make_poly_collection after an earlier plot of the same name[{cfg[0]} {cfg[2]}]', 'fn': 'scn_poly_history', 'kwargs': {'ci': ci}})
        out.append({'name': f'make_quiver[{cfg[0]} {cfg[2]}]', 'fn': 'scn_quiver', 'kwargs': {'ci': ci}})
        out.append({'name': f'animate_on_figure[{cfg[0]} {cfg[2]}]', 'fn': 'scn_animate', 'kwargs': {'ci': ci}})
    out.append({'name': 'leftover dimensions are refused', 'fn': 'scn_refuse', 'kwargs': {}})
    # the callee contract the quiver scenarios rely on (face_centres[n] = the centre of cell n) is re-verified here against the real bodies,
    # so that a change inside face_centres fails *this* check too
    from props import C02
    for ci, cfg in enumerate(C02.CENTRE_CONFIGS):
        out.append({'name': f'contract face_centres[{cfg[0]} {cfg[1]}]', 'fn': 'scn_centres_contract', 'kwargs': {'ci': ci}})
    out += polygon_contract_scenarios()
    return out


def scn_centres_contract(c, ci):
    from props import C02
    return C02.scn_centres(c, ci)


def _setup(c, ci, extra_dims=()):
    conv_name, kw, vdims = CONFIGS[ci]
    keys = POLY_KEYS + [FACE_CENTRES[k].key for k in FACE_CENTRES]
    it = new_interp(use=POLY_KEYS)
    for k in FACE_CENTRES.values():
        it.contracts[k.key] = k
    ds, conv = inputs.make_convention(it, c, conv_name, extra=[('v', tuple(extra_dims) + tuple(vdims), 'float'), ('u', tuple(extra_dims) + tuple(vdims), 'floatnan'),
                                                                  ('w', ('t',) + tuple(vdims), 'floatnan')], **kw)
    return it, ds, conv, conv_name


def _collection_call(c):
    calls = [e for e in c.events if e[0] == 'plot' and e[1].endswith('PolyCollection')]
    return calls


def _check_pairing(c, it, ds, conv, call_ev, var, tag=''):
    polys = abstract_polygons(conv)
    size = polys.shape[0]
    kwargs = call_ev[3]
    verts = kwargs.get('verts')
    arr = kwargs.get('array')
    c.check(tag + 'patches and values are both passed to the collection', isinstance(verts, SymSeq) and isinstance(arr, NDArray))
    if not (isinstance(verts, SymSeq) and isinstance(arr, NDArray)):
        raise PathEnd()
    c.check(tag + 'as many values as patches', s_eq(verts.length, arr.shape[0]) and len(arr.shape) == 1)
    k = c.fresh_int('k')
    c.assume(k >= 0)
    c.assume(k < verts.length)
    outline = verts.at(k)
    tok = outline.fn(()) if isinstance(outline, NDArray) else outline
    c.check(tag + 'patch k is the outline of a polygon of the dataset', isinstance(tok, Outline))
    if not isinstance(tok, Outline):
        raise PathEnd()
    cell = tok.poly.n                      # linear index of the cell whose outline patch k shows
    c.check(tag + 'patch k belongs to a cell that has geometry (holes contribute no patch)', mk_bool(z3.Not(polys.hole(zint(cell)))))
    shape = ds.info['shape']['face']
    gdims = ds.info['dims']['face']
    v = ds._vars[var]
    comps = dict(zip(gdims, unravel(cell, tuple(shape))))
    src = tuple(comps[d] for d in v.dims)
    c.check(tag + 'value k is the value of the very cell whose outline patch k shows', arr.fn((k,)).same_bits(v.arr.fn(src)))
    # order and completeness: patches enumerate the cells with geometry in linear order
    sel = getattr(arr, 'selection', None)
    c.check(tag + 'values are selected with the validity mask', sel is not None)
    if sel is not None:
        c.check(tag + 'patch k is cell sel(k): cells with geometry in increasing linear order, each exactly once', s_eq(cell, sel.sel(k)))
        n = c.fresh_int('n')
        c.assume(n >= 0)
        c.assume(n < size)
        sel.rank(n)
        c.check(tag + 'every cell with geometry gets a patch', s_implies(mk_bool(z3.Not(polys.hole(zint(n)))), mk_bool(sel.count.z > 0)))
    return kwargs, arr


def scn_poly(c, ci, how):
    it, ds, conv, conv_name = _setup(c, ci)
    arg = 'v' if how == 'name' else ds._da('v')
    from pyvc.api import check_unmodified, snapshot
    snap = snapshot(ds)
    expect_ok(c, 'make_poly_collection returns', lambda: method(it, conv, 'make_poly_collection', arg, cmap='jet'))
    check_unmodified(c, ds, snap, 'the plotted dataset')
    calls = _collection_call(c)
    c.check('exactly one PolyCollection is built', len(calls) == 1)
    if len(calls) != 1:
        raise PathEnd()
    kwargs, arr = _check_pairing(c, it, ds, conv, calls[0], 'v')
    c.check('caller keyword arguments are passed through', kwargs.get('cmap') == 'jet' and kwargs.get('closed') is False)
    clim = kwargs.get('clim')
    ok = isinstance(clim, tuple) and len(clim) == 2 and all(hasattr(x, '_reduce') for x in clim)
    c.check('default colour limits are (nanmin, nanmax) of exactly the plotted values',
            ok and clim[0]._reduce[0] == 'min' and clim[1]._reduce[0] == 'max' and clim[0]._reduce[1] is arr and clim[1]._reduce[1] is arr)
    c.check('the data CRS is the default transform', isinstance(kwargs.get('transform'), Recorder))


def scn_poly_history(c, ci):
    """A collection built after another array of the same name was plotted on the same dataset (another time step, a derived array)
    carries the array it was given: nothing plotted earlier is remembered."""
    from pyvc.lib.xarray_ import XDataArray
    it, ds, conv, conv_name = _setup(c, ci)
    earlier = XDataArray(_var=ds._vars['u'], name='v')          # other values under the same name
    expect_ok(c, 'an earlier make_poly_collection returns', lambda: method(it, conv, 'make_poly_collection', earlier))
    n0 = len(c.events)
    expect_ok(c, 'make_poly_collection returns after an earlier plot of an array of the same name', lambda: method(it, conv, 'make_poly_collection', 'v'))
    calls = [e for e in c.events[n0:] if e[0] == 'plot' and e[1].endswith('PolyCollection')]
    c.check('exactly one PolyCollection is built by the later call', len(calls) == 1)
    if len(calls) != 1:
        raise PathEnd()
    kwargs, arr = _check_pairing(c, it, ds, conv, calls[0], 'v', tag='after an earlier plot of the same name: ')
    clim = kwargs.get('clim')
    ok = isinstance(clim, tuple) and len(clim) == 2 and all(hasattr(x, '_reduce') for x in clim)
    c.check('after an earlier plot of the same name: colour limits are those of the values plotted now',
            ok and clim[0]._reduce[1] is arr and clim[1]._reduce[1] is arr)
    leftover = XDataArray(_var=ds._vars['w'], name='v')          # a (t, ...) array under the same name is still refused
    expect_raise(c, 'a variable with a leftover dimension is still refused after a plot of the same name',
                 lambda: method(it, conv, 'make_poly_collection', leftover), ValueError)


def scn_overrides(c, ci):
    it, ds, conv, conv_name = _setup(c, ci)
    my_clim, my_tr, my_arr = OpaqueValue('clim'), OpaqueValue('transform'), OpaqueValue('array')
    expect_ok(c, 'make_poly_collection with overrides returns', lambda: method(it, conv, 'make_poly_collection', 'v', clim=my_clim, transform=my_tr))
    calls = _collection_call(c)
    c.check('one collection', len(calls) == 1)
    if calls:
        kw = calls[0][3]
        c.check('a caller-supplied clim is used untouched', kw.get('clim') is my_clim)
        c.check('a caller-supplied transform is used untouched', kw.get('transform') is my_tr)
    n0 = len(c.events)
    expect_ok(c, 'make_poly_collection(array=...) returns', lambda: method(it, conv, 'make_poly_collection', array=my_arr))
    calls = [e for e in c.events[n0:] if e[0] == 'plot' and e[1].endswith('PolyCollection')]
    if calls:
        c.check('a caller-supplied array is passed through untouched', calls[0][3].get('array') is my_arr)
        c.check('no clim is invented for a caller-supplied array', 'clim' not in calls[0][3])
    expect_raise(c, 'data_array together with array= is refused with TypeError',
                 lambda: method(it, conv, 'make_poly_collection', 'v', array=my_arr), TypeError)
    n1 = len(c.events)
    expect_ok(c, 'make_patch_collection (deprecated name) returns', lambda: method(it, conv, 'make_patch_collection', 'v'))
    calls = [e for e in c.events[n1:] if e[0] == 'plot' and e[1].endswith('PolyCollection')]
    if len(calls) == 1:
        _check_pairing(c, it, ds, conv, calls[0], 'v', tag='make_patch_collection: ')


def scn_refuse(c):
    it, ds, conv, conv_name = _setup(c, 0, extra_dims=('t',))
    expect_raise(c, 'a variable with a leftover non-spatial dimension is refused (scalar)', lambda: method(it, conv, 'make_poly_collection', 'v'), ValueError)
    axes = Recorder('axes')
    expect_raise(c, 'a vector pair with a leftover non-spatial dimension is refused', lambda: method(it, conv, 'make_quiver', axes, 'u', 'v'), ValueError)
    it2, ds2, conv2, _ = _setup(c, 0)
    expect_raise(c, 'vector components with different dimensions are refused', lambda: method(it2, conv2, 'make_quiver', Recorder('axes'), 'u', 'w'), ValueError)


def scn_quiver(c, ci):
    it, ds, conv, conv_name = _setup(c, ci)
    axes = Recorder('axes')
    centres0 = expect_ok(c, 'face_centres', lambda: attr(it, conv, 'face_centres'))
    centre_values = centres0.fn            # the face centres as they are before anything is plotted
    expect_ok(c, 'make_quiver returns', lambda: method(it, conv, 'make_quiver', axes, 'u', ds._da('v')))
    calls = [e for e in c.events if e[0] == 'plot' and e[1].endswith('Quiver')]
    c.check('exactly one Quiver is built', len(calls) == 1)
    if len(calls) != 1:
        raise PathEnd()
    args = calls[0][2]
    c.check('Quiver(axes, X, Y, U, V)', len(args) == 5 and args[0] is axes and all(isinstance(a, NDArray) for a in args[1:]))
    if len(args) != 5:
        raise PathEnd()
    X, Y, U, V = args[1:]
    polys = abstract_polygons(conv)
    size = polys.shape[0]
    centres = polys._centres
    for a in (X, Y, U, V):
        c.check('one arrow per cell (full arrays, linear order)', len(a.shape) == 1 and s_eq(a.shape[0], size))
    n = c.fresh_int('n')
    c.assume(n >= 0)
    c.assume(n < size)
    shape, gdims = ds.info['shape']['face'], ds.info['dims']['face']
    comps = dict(zip(gdims, unravel(n, tuple(shape))))
    c.check('arrow n sits at face centre n (x), whatever its components are (missing components do not move it)', X.fn((n,)).same_bits(centre_values((n, 0))))
    c.check('arrow n sits at face centre n (y), whatever its components are (missing components do not move it)', Y.fn((n,)).same_bits(centre_values((n, 1))))
    after = attr(it, conv, 'face_centres')
    c.check('plotting vectors does not change the face centres of the convention (the next plot uses them again)',
            after is centres0 and s_and(after.fn((n, 0)).same_bits(centre_values((n, 0))), after.fn((n, 1)).same_bits(centre_values((n, 1)))))
    for nm, a in (('u', U), ('v', V)):
        v = ds._vars[nm]
        c.check(f'arrow n carries the {nm} component of cell n', a.fn((n,)).same_bits(v.arr.fn(tuple(comps[d] for d in v.dims))))
    c.check('the data CRS is the default transform', isinstance(calls[0][3].get('transform'), Recorder))


def scn_animate(c, ci):
    it, ds, conv, conv_name = _setup(c, ci)
    f = fn(it, 'emsarray.plot', 'animate_on_figure')
    nt = ds._sizes()['t']
    c.assume(nt >= 1)        # there is something to animate
    from pyvc.lib import numpy_ as np
    from pyvc.api import XDataArray
    coord = XDataArray(data=sym_array(c, 'tvals', (nt,), 'V'), dims=('t',), name='t')
    fig = Recorder('figure')
    expect_ok(c, 'animate_on_figure returns', lambda: call(it, f, fig, conv, coordinate=coord, scalar=ds._da('w'), coast=False, gridlines=False))
    anim = [e for e in c.events if e[0] == 'plot' and e[1].endswith('FuncAnimation')]
    c.check('one FuncAnimation', len(anim) == 1)
    if len(anim) != 1:
        raise PathEnd()
    animate = anim[0][2][1]
    colls = _collection_call(c)
    c.check('one collection for the scalar', len(colls) == 1)
    t = c.fresh_int('frame')
    c.assume(t >= 0)
    c.assume(t < nt)
    n0 = len(c.events)
    expect_ok(c, 'the frame callback runs', lambda: it.call(animate, [t], {}))
    sets = [e for e in c.events[n0:] if e[0] == 'plot' and e[1].endswith('set_array')]
    c.check('each frame sets the collection array once', len(sets) == 1)
    if len(sets) != 1 or len(colls) != 1:
        raise PathEnd()
    frame = sets[0][2][0]
    verts = colls[0][3].get('verts')
    c.check('frame values and patches have the same count', isinstance(frame, NDArray) and isinstance(verts, SymSeq) and s_eq(frame.shape[0], verts.length))
    k = c.fresh_int('k')
    c.assume(k >= 0)
    c.assume(k < verts.length)
    outline = verts.at(k)
    tok = outline.fn(()) if isinstance(outline, NDArray) else outline
    cell = tok.poly.n
    shape, gdims = ds.info['shape']['face'], ds.info['dims']['face']
    comps = dict(zip(gdims, unravel(cell, tuple(shape))))
    comps['t'] = t
    v = ds._vars['w']
    c.check('in frame t, value k is the value at time t of the very cell whose outline patch k shows',
            frame.fn((k,)).same_bits(v.arr.fn(tuple(comps[d] for d in v.dims))))


NATIVE = {'': 'artists'}
