"""C14 -- triangulation exactly partitions every cell polygon.

Function under contract (real body): operations.triangulate._triangulate_polygons_by_length -- the bulk fan triangulation of convex cells:
for P polygons of n vertices each (P symbolic, n = 3..8 and symbolic), triangle t of polygon p is (v[p,0], v[p,t+1], v[p,t+2]), t = 0..n-3:
n-2 triangles whose corners are vertices of the cell, bit for bit.  Lemmas (mathematics, discharged by z3 over the reals, A-REAL): the signed
areas of the fan triangles add up to the signed area of the polygon (n = 3..8), and for a convex ring every fan triangle has the orientation
of the ring -- together: the fan covers a convex cell exactly, without overlap.
NOT decided deductively: triangulate_dataset (pandas index joins, loops with carried counters over numpy.unique of symbolic lengths) and
_triangulate_concave_polygon (ear clipping driven by shapely's floating-point predicates) -- bounded native stand-in with an exact rational
oracle (harness/native/C14.py), labelled bounded.
"""
from __future__ import annotations

import z3

from pyvc import core
from pyvc.api import (FIN, PathEnd, SFloat, call, expect_ok, fn, mk_bool, mk_int, mk_real, new_interp, s_and, s_eq, s_implies, sym_size, zint)
from pyvc.lib import numpy_ as np
from pyvc.lib.numpy_ import FLOAT64, NDArray, OBJECT

PROPERTY = 'C14'
LEVEL = 'other'        # mixed: one function proved, the rest bounded (MANIFEST level_claimed.category)
MOD = 'emsarray.operations.triangulate'


def scenarios(tier):
    out = [{'name': f'_triangulate_polygons_by_length[{n} sides]', 'fn': 'scn_fan', 'kwargs': {'n': n}} for n in (3, 4, 5, 6, 7, 8)]
    out.append({'name': '_triangulate_polygons_by_length[any number of sides]', 'fn': 'scn_fan', 'kwargs': {'n': None}})
    out += [{'name': f'lemma: fan areas add up to the polygon area[{n} sides]', 'fn': 'scn_lemma_area', 'kwargs': {'n': n}} for n in (3, 4, 5, 6, 7, 8)]
    out.append({'name': 'lemma: in a convex ring every fan triangle has the orientation of the ring', 'fn': 'scn_lemma_orientation', 'kwargs': {}})
    return out


class Ring:
    """polygon.exterior / .coords of an abstract polygon"""
    _pyvc_model_class = True

    def __init__(self, n):
        self.n = n

    @property
    def exterior(self):
        return self

    @property
    def coords(self):
        return self

    def _len(self):
        return self.n + 1            # SHAPELY-RING-CLOSED: the coordinate sequence of a ring repeats its first vertex


class RingArray:
    _pyvc_model_class = True

    def __init__(self, polys):
        self.polys = polys


def scn_fan(c, n):
    it = new_interp()
    P = sym_size(c, 'npoly', 1)
    nn = n if n is not None else sym_size(c, 'nsides', 3)
    coord = c.fresh_fn('vertex', z3.IntSort(), z3.IntSort(), z3.IntSort(), z3.RealSort())
    ring = Ring(nn)
    polygons = NDArray((P,), lambda i: ring, OBJECT)

    def vtx(p, k, xy):
        # vertex k of polygon p; the closing vertex (k = n) is vertex 0 again
        kk = z3.If(zint(k) == zint(nn), z3.IntVal(0), zint(k))
        return SFloat(FIN, mk_real(coord(zint(p), kk, zint(xy))))

    def get_exterior_ring(polys):
        return RingArray(polys)

    def get_coordinates(rings):
        c.lib_used.add('SHAPELY-GET-COORDINATES (all ring coordinates in order, every ring closed by repeating its first vertex)')
        w = nn + 1
        return NDArray((P * w, 2), lambda i: vtx(mk_int(zint(i[0]) / zint(w)), mk_int(zint(i[0]) % zint(w)), i[1]), FLOAT64)
    mod = it.load_module(MOD) if hasattr(it, 'load_module') else None
    from pyvc.interp import model
    shp = it.libs['shapely']

    class Shapely:
        _pyvc_model_class = True
    for k in dir(shp):
        if not k.startswith('__'):
            try:
                setattr(Shapely, k, getattr(shp, k))
            except Exception:
                pass
    Shapely.get_exterior_ring = staticmethod(model(get_exterior_ring))
    Shapely.get_coordinates = staticmethod(model(get_coordinates))
    it.libs['shapely'] = Shapely
    f = fn(it, MOD, '_triangulate_polygons_by_length')
    tri = expect_ok(c, '_triangulate_polygons_by_length returns', lambda: call(it, f, polygons))
    c.check('shape (polygons, n - 2 triangles, 3 corners, 2 coordinates)',
            len(tri.shape) == 4 and s_eq(tri.shape[0], P) and s_eq(tri.shape[1], nn - 2) and tri.shape[2] == 3 and tri.shape[3] == 2)
    if len(tri.shape) != 4:
        raise PathEnd()
    p, t, xy = c.fresh_int('p'), c.fresh_int('t'), c.fresh_int('xy')
    for q, m in ((p, P), (t, nn - 2), (xy, 2)):
        c.assume(q >= 0)
        c.assume(q < m)
    for corner, k in ((0, 0), (1, t + 1), (2, t + 2)):
        got = tri.fn((p, t, corner, xy))
        c.check(f'triangle t of polygon p: corner {corner} is vertex {["0", "t+1", "t+2"][corner]} of that polygon, bit for bit', got.same_bits(vtx(p, k, xy)))
    c.check('every corner index is a vertex of the polygon (t + 2 <= n - 1)', mk_bool(zint(t) + 2 <= zint(nn) - 1))


def _pts(c, n):
    return [(c.fresh_real(f'x{k}').z, c.fresh_real(f'y{k}').z) for k in range(n)]


def _cross(o, a, b):
    return (a[0] - o[0]) * (b[1] - o[1]) - (a[1] - o[1]) * (b[0] - o[0])


def scn_lemma_area(c, n):
    v = _pts(c, n)
    shoelace = sum(v[k][0] * v[(k + 1) % n][1] - v[(k + 1) % n][0] * v[k][1] for k in range(n))
    fan = sum(_cross(v[0], v[t + 1], v[t + 2]) for t in range(n - 2))
    c.check(f'twice the signed area of the {n}-gon equals the sum of twice the signed areas of its n - 2 fan triangles', mk_bool(shoelace == fan))


def scn_lemma_orientation(c):
    for n in (4, 5, 6, 7, 8):
        v = _pts(c, n)
        for k in range(n):          # convex, anticlockwise: every vertex lies on the left of (or on) every edge
            a, b = v[k], v[(k + 1) % n]
            for w in v:
                c.assume(mk_bool(_cross(a, b, w) >= 0))
        for t in range(n - 2):
            c.check(f'{n}-gon, fan triangle {t} is anticlockwise or flat (v0 lies left of edge t+1 -> t+2)', mk_bool(_cross(v[0], v[t + 1], v[t + 2]) >= 0))


NATIVE = {'': 'triangulate'}
