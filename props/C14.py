"""C14 -- triangulation exactly partitions every cell polygon.

Function under contract (real body): operations.triangulate._triangulate_polygons_by_length -- the bulk fan triangulation of convex cells:
for P polygons of n vertices each (P symbolic, n = 3..8 and symbolic), triangle t of polygon p is (v[p,0], v[p,t+1], v[p,t+2]), t = 0..n-3:
n-2 triangles whose corners are vertices of the cell, bit for bit.  Lemmas (mathematics, discharged by z3 over the reals, A-REAL): the signed
areas of the fan triangles add up to the signed area of the polygon (n = 3..8), and for a convex ring every fan triangle has the orientation
of the ring -- together: the fan covers a convex cell exactly, without overlap.
Also under contract: triangulate_dataset up to its loops, by intermediate assertions at three cut points of the real body (run_until): the
classification of the cells (set aside for ear clipping iff hull and ring differ in their number of coordinates), the batch of every length,
and what the fan / ear-clipping functions are applied to.
NOT decided deductively: the buffer bookkeeping after the cut points (_add_triangles with its cursor, the final assert), the vertex
de-duplication and index joins (pandas) and _triangulate_concave_polygon (ear clipping driven by shapely's floating-point predicates) --
bounded native stand-in with an exact rational oracle (harness/native/C14.py), labelled bounded.
"""
from __future__ import annotations

import z3

from pyvc import core
from pyvc.api import (FIN, PathEnd, SFloat, call, expect_ok, fn, mk_bool, mk_int, mk_real, new_interp, s_and, s_eq, s_implies, sym_size, zint)
from pyvc.lib import numpy_ as np
from pyvc.lib.numpy_ import FLOAT64, NDArray, OBJECT

PROPERTY = 'C14'
LEVEL = 'other'        # mixed: one function proved, the rest bounded (MANIFEST level_claimed.category)
MOD = 'emsarray.operations.triangulate'


def scenarios(tier):
    out = [{'name': f'_triangulate_polygons_by_length[{n} sides]', 'fn': 'scn_fan', 'kwargs': {'n': n}} for n in (3, 4, 5, 6, 7, 8)]
    out.append({'name': '_triangulate_polygons_by_length[any number of sides]', 'fn': 'scn_fan', 'kwargs': {'n': None}})
    out += [{'name': f'lemma: fan areas add up to the polygon area[{n} sides]', 'fn': 'scn_lemma_area', 'kwargs': {'n': n}} for n in (3, 4, 5, 6, 7, 8)]
    out.append({'name': 'lemma: in a convex ring every fan triangle has the orientation of the ring', 'fn': 'scn_lemma_orientation', 'kwargs': {}})
    out.append({'name': 'triangulate_dataset: classification of the cells (cut point before the batches)', 'fn': 'scn_routing_classification', 'kwargs': {}})
    out.append({'name': 'triangulate_dataset: a batch of convex cells of one length (cut point inside the batch loop)', 'fn': 'scn_routing_batches', 'kwargs': {}})
    out.append({'name': 'triangulate_dataset: cells set aside go to ear clipping (cut point inside the last loop)', 'fn': 'scn_routing_concave', 'kwargs': {}})
    return out


class Ring:
    """polygon.exterior / .coords of an abstract polygon"""
    _pyvc_model_class = True

    def __init__(self, n):
        self.n = n

    @property
    def exterior(self):
        return self

    @property
    def coords(self):
        return self

    def _len(self):
        return self.n + 1            # SHAPELY-RING-CLOSED: the coordinate sequence of a ring repeats its first vertex


class RingArray:
    _pyvc_model_class = True

    def __init__(self, polys):
        self.polys = polys


def scn_fan(c, n):
    it = new_interp()
    P = sym_size(c, 'npoly', 1)
    nn = n if n is not None else sym_size(c, 'nsides', 3)
    coord = c.fresh_fn('vertex', z3.IntSort(), z3.IntSort(), z3.IntSort(), z3.RealSort())
    ring = Ring(nn)
    polygons = NDArray((P,), lambda i: ring, OBJECT)

    def vtx(p, k, xy):
        # vertex k of polygon p; the closing vertex (k = n) is vertex 0 again
        kk = z3.If(zint(k) == zint(nn), z3.IntVal(0), zint(k))
        return SFloat(FIN, mk_real(coord(zint(p), kk, zint(xy))))

    def get_exterior_ring(polys):
        return RingArray(polys)

    def get_coordinates(rings):
        c.lib_used.add('SHAPELY-GET-COORDINATES (all ring coordinates in order, every ring closed by repeating its first vertex)')
        w = nn + 1
        return NDArray((P * w, 2), lambda i: vtx(mk_int(zint(i[0]) / zint(w)), mk_int(zint(i[0]) % zint(w)), i[1]), FLOAT64)
    mod = it.load_module(MOD) if hasattr(it, 'load_module') else None
    from pyvc.interp import model
    shp = it.libs['shapely']

    class Shapely:
        _pyvc_model_class = True
    for k in dir(shp):
        if not k.startswith('__'):
            try:
                setattr(Shapely, k, getattr(shp, k))
            except Exception:
                pass
    Shapely.get_exterior_ring = staticmethod(model(get_exterior_ring))
    Shapely.get_coordinates = staticmethod(model(get_coordinates))
    it.libs['shapely'] = Shapely
    f = fn(it, MOD, '_triangulate_polygons_by_length')
    tri = expect_ok(c, '_triangulate_polygons_by_length returns', lambda: call(it, f, polygons))
    c.check('shape (polygons, n - 2 triangles, 3 corners, 2 coordinates)',
            len(tri.shape) == 4 and s_eq(tri.shape[0], P) and s_eq(tri.shape[1], nn - 2) and tri.shape[2] == 3 and tri.shape[3] == 2)
    if len(tri.shape) != 4:
        raise PathEnd()
    p, t, xy = c.fresh_int('p'), c.fresh_int('t'), c.fresh_int('xy')
    for q, m in ((p, P), (t, nn - 2), (xy, 2)):
        c.assume(q >= 0)
        c.assume(q < m)
    for corner, k in ((0, 0), (1, t + 1), (2, t + 2)):
        got = tri.fn((p, t, corner, xy))
        c.check(f'triangle t of polygon p: corner {corner} is vertex {["0", "t+1", "t+2"][corner]} of that polygon, bit for bit', got.same_bits(vtx(p, k, xy)))
    c.check('every corner index is a vertex of the polygon (t + 2 <= n - 1)', mk_bool(zint(t) + 2 <= zint(nn) - 1))


def _pts(c, n):
    return [(c.fresh_real(f'x{k}').z, c.fresh_real(f'y{k}').z) for k in range(n)]


def _cross(o, a, b):
    return (a[0] - o[0]) * (b[1] - o[1]) - (a[1] - o[1]) * (b[0] - o[0])


def scn_lemma_area(c, n):
    v = _pts(c, n)
    shoelace = sum(v[k][0] * v[(k + 1) % n][1] - v[(k + 1) % n][0] * v[k][1] for k in range(n))
    fan = sum(_cross(v[0], v[t + 1], v[t + 2]) for t in range(n - 2))
    c.check(f'twice the signed area of the {n}-gon equals the sum of twice the signed areas of its n - 2 fan triangles', mk_bool(shoelace == fan))


def scn_lemma_orientation(c):
    for n in (4, 5, 6, 7, 8):
        v = _pts(c, n)
        for k in range(n):          # convex, anticlockwise: every vertex lies on the left of (or on) every edge
            a, b = v[k], v[(k + 1) % n]
            for w in v:
                c.assume(mk_bool(_cross(a, b, w) >= 0))
        for t in range(n - 2):
            c.check(f'{n}-gon, fan triangle {t} is anticlockwise or flat (v0 lies left of edge t+1 -> t+2)', mk_bool(_cross(v[0], v[t + 1], v[t + 2]) >= 0))


# ---------------------------------------------------------------------------------------------------------------------------------------
# triangulate_dataset: which cells go where (intermediate assertions at cut points of the real body)
def _routing_setup(c):
    from contracts import base, inputs
    from props.C11 import _accessors, _entry_points
    from pyvc.contract import Contract
    from pyvc.lib.stdlib import OpaqueValue
    it = new_interp(use=base.POLY_KEYS)
    ds, conv = inputs.make_convention(it, c, 'CFGrid2D')
    c.entry_points = _entry_points(it)
    _accessors(c, it)
    from pyvc.api import method
    method(it, conv, 'bind')
    for name, what in (('_triangulate_polygons_by_length', 'fan'), ('_triangulate_concave_polygon', 'ear-clipping')):
        def post(it_, a, what=what):
            arg = a['polygons'] if 'polygons' in a else a['polygon']
            c.event('triangulate', what, arg)
            return OpaqueValue(what, arg=arg)
        it.contracts[(MOD, name)] = Contract(MOD, name, post=post, verified_by='C14 fan scenarios' if what == 'fan' else 'bounded native (ear clipping)')
    polys = base.abstract_polygons(conv)
    return it, ds, conv, polys


def _geometry_terms(c, polys, n):
    from pyvc.lib.shapely_ import _fn
    nc = _fn('num_coordinates', core.GeomSort, z3.IntSort())
    hull = _fn('convex_hull', core.GeomSort, core.GeomSort)
    p = polys.poly(zint(n))
    return z3.Not(polys.hole(zint(n))), nc(p), nc(hull(p))


def scn_routing_classification(c):
    """Just before the batches are formed: which cells are set aside for ear clipping, which lengths remain."""
    from pyvc.api import run_until
    it, ds, conv, polys = _routing_setup(c)
    f = fn(it, MOD, 'triangulate_dataset')
    env = run_until(it, f, 'for unique_length in unique_lengths', lambda: call(it, f, ds))
    c.check('the batching loop is reached', env is not None)
    if env is None:
        raise PathEnd()
    concave, plen, uniq = env.lookup('polygon_is_concave'), env.lookup('polygon_length'), env.lookup('unique_lengths')
    n = c.fresh_int('cell')
    c.assume(n >= 0)
    c.assume(n < polys.shape[0])
    has, L, H = _geometry_terms(c, polys, n)
    is_concave = z3.And(has, H != L)
    sel = getattr(concave, 'selection', None)
    c.check('the cells set aside for ear clipping are exactly the cells with geometry whose convex hull has another number of coordinates than the '
            'cell itself (whatever the number of sides), in increasing order, each once', sel is not None and getattr(concave, 'sorted_unique', False)
            and s_eq(core.truthy(sel.keep(n)), mk_bool(is_concave)))
    c.check('cells without geometry, and the cells set aside, count as length 0; every other cell keeps its number of ring coordinates',
            s_eq(plen.fn((n,)), mk_int(z3.If(z3.And(has, z3.Not(is_concave)), L, 0))))
    occurs = getattr(uniq, 'occurs', None)
    c.check('the batch lengths are the distinct values of that array', getattr(uniq, 'source_array', None) is plen or getattr(uniq, 'valueset_of', None) is plen
            or occurs is not None)


def scn_routing_batches(c):
    """Inside the batching loop, for an arbitrary batch length: which cells form the batch and what is triangulated."""
    from pyvc.api import run_until
    it, ds, conv, polys = _routing_setup(c)
    f = fn(it, MOD, 'triangulate_dataset')
    env = run_until(it, f, 'for face_index, triangles in zip(', lambda: call(it, f, ds), stop_at=['for face_index in polygon_is_concave'])
    if env is None:
        raise PathEnd()         # the arbitrary batch length was 0 (skipped), or there is no batch at all: nothing to state on this path
    u = env.lookup('unique_length')
    sfi, spolys, tris = env.lookup('same_length_face_indices'), env.lookup('same_length_polygons'), env.lookup('vertex_triangles')
    c.check('a batch length is never 0 (cells without geometry and cells set aside are skipped)', mk_bool(zint(u) != 0))
    n = c.fresh_int('cell')
    c.assume(n >= 0)
    c.assume(n < polys.shape[0])
    has, L, H = _geometry_terms(c, polys, n)
    sel = getattr(sfi, 'selection', None)
    c.check('the batch of length u holds exactly the convex-classified cells with u ring coordinates, in increasing order, each once',
            sel is not None and getattr(sfi, 'sorted_unique', False) and s_eq(core.truthy(sel.keep(n)), mk_bool(z3.And(has, H == L, L == zint(u)))))
    p = c.fresh_int('pos')
    c.assume(p >= 0)
    c.assume(p < sfi.shape[0])
    cell = sfi.fn((p,))
    g = spolys.fn((p,))
    g = core.resolve_maybe(g) if isinstance(g, core.Maybe) else g
    c.check('polygon p of the batch is the polygon of cell p of the batch', getattr(g, 'term', None) is not None and mk_bool(g.term == polys.poly(zint(cell))))
    c.check('the bulk (fan) method is applied to exactly that batch', getattr(tris, 'what', None) == 'fan' and tris.info.get('arg') is spolys)


def scn_routing_concave(c):
    """In the last loop: every cell set aside is handed, with its own polygon and index, to ear clipping."""
    from pyvc.api import run_until
    it, ds, conv, polys = _routing_setup(c)
    f = fn(it, MOD, 'triangulate_dataset')
    env = run_until(it, f, '_add_triangles(int(face_index), triangles)', lambda: call(it, f, ds), occurrence=2,
                    stop_at=['for face_index, triangles in zip(', 'assert current_face == total_triangles'])
    if env is None:
        raise PathEnd()
    fi, poly, tris = env.lookup('face_index'), env.lookup('polygon'), env.lookup('triangles')
    has, L, H = _geometry_terms(c, polys, fi)
    c.check('a cell handed to ear clipping has geometry and was classified concave', mk_bool(z3.And(has, H != L)))
    poly = core.resolve_maybe(poly) if isinstance(poly, core.Maybe) else poly
    c.check('it is handed over with its own polygon', getattr(poly, 'term', None) is not None and mk_bool(poly.term == polys.poly(zint(fi))))
    c.check('ear clipping is applied to exactly that polygon', getattr(tris, 'what', None) == 'ear-clipping' and tris.info.get('arg') is env.lookup('polygon'))


NATIVE = {'': 'triangulate'}
