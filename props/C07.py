"""C07 -- clip masks select exactly the intersecting cells plus the requested buffer.

Under contract (real bodies): masking.blur_mask, masking.smear_mask, arakawa_c.c_mask_from_centres,
CFGrid.make_clip_mask, ArakawaC.make_clip_mask (grids, all extents, any buffer);
ugrid.buffer_faces / mask_from_face_indexes / UGrid.make_clip_mask are carried by the bounded stand-in for now.
Callee contracts used: Convention.strtree / polygons (contracts/base.py) and SH-STRTREE-QUERY.
"""
from __future__ import annotations

import z3

from contracts import inputs
from contracts.base import POLY_KEYS, abstract_polygons
from contracts.masking import C_MASK_KEY
from pyvc import core
from pyvc.api import (PathEnd, attr, call, cls, expect_ok, expect_raise, fn, method, mk_bool, mk_int, new_interp, outcome,
                      s_and, s_eq, s_implies, s_not, s_or, sym_array, sym_size, truthy, zbool, zint)
from pyvc.core import GeomSort, SVal
from pyvc.lib import numpy_ as np

from props._contracts import polygon_contract_scenarios, scn_polygon_contract  # noqa: F401

PROPERTY = 'C07'


def scenarios(tier):
    out = [
        {'name': 'blur_mask', 'fn': 'scn_blur', 'kwargs': {}},
        {'name': 'blur_mask monotone', 'fn': 'scn_blur_monotone', 'kwargs': {}},
    ]
    for pat in ('left', 'back', 'node', 'none'):
        out.append({'name': f'smear_mask[{pat}]', 'fn': 'scn_smear', 'kwargs': {'pat': pat}})
    out.append({'name': 'c_mask_from_centres', 'fn': 'scn_c_mask', 'kwargs': {}})
    for fill, si, edges in (('int_fill', 0, False), ('int_fill', 1, True), ('nan', 1, False), ('none', 0, True), ('int_fill', 0, 'derived')):
        out.append({'name': f'mask_from_face_indexes[{fill}, start_index={si}, {"with" if edges else "without"} edges{" (face-edge table derived)" if edges == "derived" else ""}]', 'fn': 'scn_mesh_mask',
                    'kwargs': {'fill': fill, 'si': si, 'edges': edges}})
    # buffer >= 1 composes buffer_faces (below) `buffer` times before mask_from_face_indexes; the composed scenario exceeds the solver budget,
    # the two functions are verified separately and the composition is exercised by the native stand-in
    for buffer in (0,):
        out.append({'name': f'UGrid.make_clip_mask[buffer={buffer}]', 'fn': 'scn_mesh_clip', 'kwargs': {'buffer': buffer}})
    for fill, si in (('int_fill', 0), ('nan', 1), ('none', 0)):
        out.append({'name': f'buffer_faces[{fill}, start_index={si}]', 'fn': 'scn_buffer_faces', 'kwargs': {'fill': fill, 'si': si}})
    out.append({'name': 'buffer_faces[mesh that stores a face-face table]', 'fn': 'scn_buffer_faces', 'kwargs': {'fill': 'int_fill', 'si': 1, 'face_face': True}})
    for conv in ('CFGrid1D', 'CFGrid2D', 'ShocSimple', 'ShocStandard'):
        for buffered in (False, True):
            out.append({'name': f'{conv}.make_clip_mask[buffer {">0" if buffered else "=0"}]', 'fn': 'scn_grid_clip',
                        'kwargs': {'conv': conv, 'buffered': buffered}})
    out += polygon_contract_scenarios()
    return out


def _cell(c, ny, nx, tag=''):
    j, i = c.fresh_int('j' + tag), c.fresh_int('i' + tag)
    c.assume(j >= 0)
    c.assume(j < ny)
    c.assume(i >= 0)
    c.assume(i < nx)
    return j, i


def _near(j, i, j2, i2, r):
    """Chebyshev distance <= r: within r steps in any of the eight directions"""
    return mk_bool(z3.And(zint(j2) - zint(j) <= zint(r), zint(j) - zint(j2) <= zint(r),
                          zint(i2) - zint(i) <= zint(r), zint(i) - zint(i2) <= zint(r)))


def _blur_facts(c, arr, out, j, i, size, ny, nx, tag=''):
    """evaluate out[j,i]; return (value, witness cell of the window search or None, quantifier)"""
    n0 = len(getattr(c, 'quantifiers', []))
    v = out.at((j, i))
    qs = getattr(c, 'quantifiers', [])[n0:]
    return v, qs


def scn_blur(c):
    it = new_interp()
    f = fn(it, 'emsarray.masking', 'blur_mask')
    ny, nx = sym_size(c, 'ny'), sym_size(c, 'nx')
    size = sym_size(c, 'size', 1)
    arr = sym_array(c, 'm', (ny, nx), 'bool')
    out = expect_ok(c, 'blur_mask returns', lambda: call(it, f, arr, size=size))
    c.check('blur_mask keeps the shape', len(out.shape) == 2 and s_and(s_eq(out.shape[0], ny), s_eq(out.shape[1], nx)))
    c.check('blur_mask keeps the dtype', out.dtype.name == 'bool')
    j, i = _cell(c, ny, nx)
    v, qs = _blur_facts(c, arr, out, j, i, size, ny, nx)
    # completeness: any marked cell within `size` steps in any of the eight directions marks (j, i)
    j2, i2 = _cell(c, ny, nx, '2')
    for q, o in qs:
        q.instantiate(o, (j2 - j + size, i2 - i + size))
    c.check('every cell within the requested number of rings of a marked cell is marked',
            s_implies(s_and(_near(j, i, j2, i2, size), truthy(arr.at((j2, i2)))), truthy(v)))
    # soundness: a marked output cell has a marked input cell within `size` steps (the window witness)
    if qs:
        q, o = qs[0]
        wj, wi = [mk_int(w(*[zint(x) for x in o])) if o else mk_int(w()) for w in q.wit]
        sj, si = j + wj - size, i + wi - size        # the input cell the window position denotes
        inr = mk_bool(z3.And(zint(sj) >= 0, zint(sj) < zint(ny), zint(si) >= 0, zint(si) < zint(nx)))
        c.check('a marked cell is marked in the input or has a marked input cell within the requested number of rings',
                s_implies(truthy(v), s_and(inr, _near(j, i, sj, si, size), truthy(arr.fn((sj, si))))))
    else:
        c.check('a cell marked without consulting its neighbourhood is marked in the input', s_implies(truthy(v), truthy(arr.at((j, i)))))


def scn_blur_monotone(c):
    """a larger input mask or a larger size never unmarks a cell"""
    it = new_interp()
    f = fn(it, 'emsarray.masking', 'blur_mask')
    ny, nx = sym_size(c, 'ny'), sym_size(c, 'nx')
    s1 = sym_size(c, 's1', 1)
    s2 = sym_size(c, 's2', 1)
    c.assume(s1 <= s2)
    a1 = sym_array(c, 'm1', (ny, nx), 'bool')
    a2f = sym_array(c, 'm2', (ny, nx), 'bool')
    a2 = np.NDArray((ny, nx), lambda i: s_or(truthy(a1.fn(i)), truthy(a2f.fn(i))), np.BOOL)    # a2 >= a1 pointwise
    o1 = expect_ok(c, 'blur 1', lambda: call(it, f, a1, size=s1))
    n1 = len(getattr(c, 'quantifiers', []))
    j, i = _cell(c, ny, nx)
    v1 = o1.at((j, i))
    q1 = getattr(c, 'quantifiers', [])[n1:]
    o2 = expect_ok(c, 'blur 2', lambda: call(it, f, a2, size=s2))
    n2 = len(getattr(c, 'quantifiers', []))
    v2 = o2.at((j, i))
    q2 = getattr(c, 'quantifiers', [])[n2:]
    if q1 and q2:
        q, o = q1[0]
        wj, wi = [mk_int(w(*[zint(x) for x in o])) if o else mk_int(w()) for w in q.wit]
        for qq, oo in q2:
            qq.instantiate(oo, (wj - s1 + s2, wi - s1 + s2))
    elif q2:
        for qq, oo in q2:
            qq.instantiate(oo, (s2, s2))
    c.check('enlarging the marked set or the buffer never unmarks a cell', s_implies(truthy(v1), truthy(v2)))


PATTERNS = {'left': [False, True], 'back': [True, False], 'node': [True, True], 'none': [False, False]}


def _F(arr, j, i, ny, nx):
    """arr[j,i] with out-of-range = False"""
    inr = mk_bool(z3.And(zint(j) >= 0, zint(j) < zint(ny), zint(i) >= 0, zint(i) < zint(nx)))
    return s_and(inr, truthy(arr.fn((j, i))))


def _smear_spec(pat, arr, j, i, ny, nx):
    dj, di = PATTERNS[pat]
    cells = [(j - a, i - b) for a in ((0, 1) if dj else (0,)) for b in ((0, 1) if di else (0,))]
    return s_or(*[_F(arr, a, b, ny, nx) for a, b in cells])


def scn_smear(c, pat):
    it = new_interp()
    f = fn(it, 'emsarray.masking', 'smear_mask')
    ny, nx = sym_size(c, 'ny'), sym_size(c, 'nx')
    arr = sym_array(c, 'm', (ny, nx), 'bool')
    out = expect_ok(c, 'smear_mask returns', lambda: call(it, f, arr, list(PATTERNS[pat])))
    dj, di = PATTERNS[pat]
    ey, ex = ny + (1 if dj else 0), nx + (1 if di else 0)
    c.check('smear_mask: one more row / column along each smeared axis', len(out.shape) == 2 and s_and(s_eq(out.shape[0], ey), s_eq(out.shape[1], ex)))
    j, i = _cell(c, ey, ex)
    c.check('an edge / node is marked iff it belongs to at least one marked cell',
            s_eq(truthy(out.at((j, i))), _smear_spec(pat, arr, j, i, ny, nx)))


def scn_c_mask(c):
    it = new_interp()
    f = fn(it, 'emsarray.conventions.arakawa_c', 'c_mask_from_centres')
    K = cls(it, 'emsarray.conventions.arakawa_c', 'ArakawaCGridKind')
    ny, nx = sym_size(c, 'ny'), sym_size(c, 'nx')
    arr = sym_array(c, 'm', (ny, nx), 'bool')
    dims = {it.getattr(K, k): (f'j_{k}', f'i_{k}') for k in ('face', 'left', 'back', 'node')}
    ds = expect_ok(c, 'c_mask_from_centres returns', lambda: call(it, f, arr, dims))
    c.check('four masks, one per grid kind', set(ds._vars) == {'face_mask', 'left_mask', 'back_mask', 'node_mask'})
    for kind, pat in (('face', 'none'), ('left', 'left'), ('back', 'back'), ('node', 'node')):
        v = ds._vars[kind + '_mask']
        c.check(f'{kind} mask lives on the {kind} dimensions', v.dims == (f'j_{kind}', f'i_{kind}'))
        dj, di = PATTERNS[pat]
        ey, ex = ny + (1 if dj else 0), nx + (1 if di else 0)
        c.check(f'{kind} mask has the extents of the {kind} grid', s_and(s_eq(v.arr.shape[0], ey), s_eq(v.arr.shape[1], ex)))
        j, i = _cell(c, ey, ex, kind)
        c.check(f'{kind} mask marks exactly the {kind} locations that belong to a marked cell',
                s_eq(truthy(v.arr.at((j, i))), _smear_spec(pat, arr, j, i, ny, nx)))


def scn_grid_clip(c, conv, buffered):
    it = new_interp(use=POLY_KEYS + [C_MASK_KEY])     # modular: edge/node masks through the contract of c_mask_from_centres
    ds, cv = inputs.make_convention(it, c, conv)
    ny, nx = ds.info['shape']['face']
    g = SVal(z3.FreshConst(GeomSort, 'clip'))
    buf = sym_size(c, 'buffer', 1) if buffered else 0
    from pyvc.api import check_unmodified, snapshot
    snap = snapshot(ds)
    m = expect_ok(c, 'make_clip_mask returns', lambda: method(it, cv, 'make_clip_mask', g, buffer=buf))
    check_unmodified(c, ds, snap, 'the dataset a mask is made for')
    polys = abstract_polygons(cv)
    q = [e for e in c.events if e[0] == 'STRtree.query']
    c.check('cells are found with one spatial query of the clip geometry using the intersects predicate (touching counts)',
            len(q) == 1 and q[0][2] is g and q[0][3] == 'intersects' and q[0][1] is polys)
    pred = core.ctx()._shp_fns['pred_intersects']

    def hit(j, i):
        n = zint(j) * zint(nx) + zint(i)
        inr = z3.And(zint(j) >= 0, zint(j) < zint(ny), zint(i) >= 0, zint(i) < zint(nx))
        return mk_bool(z3.And(inr, z3.Not(polys.hole(n)), pred(g.z, polys.poly(n))))
    face_name = 'cell_mask' if conv != 'ShocStandard' else 'face_mask'
    c.check('the mask dataset has the cell mask', face_name in m._vars)
    fm = m._vars[face_name]
    c.check('the cell mask lives on the face dimensions', fm.dims == tuple(ds.info['dims']['face']))
    c.check('the cell mask has the extents of the face grid', s_and(s_eq(fm.arr.shape[0], ny), s_eq(fm.arr.shape[1], nx)))
    j, i = _cell(c, ny, nx)
    n0 = len(getattr(c, 'quantifiers', []))
    v = truthy(fm.arr.at((j, i)))
    qs = getattr(c, 'quantifiers', [])[n0:]
    if not buffered:
        c.check('without buffer: a cell is marked iff its polygon intersects the clip geometry (cells without geometry never)',
                s_eq(v, hit(j, i)))
    else:
        j2, i2 = _cell(c, ny, nx, '2')
        for qq, oo in qs:
            qq.instantiate(oo, (j2 - j + buf, i2 - i + buf))
        c.check('with buffer b: every cell within b rings of an intersecting cell is marked',
                s_implies(s_and(_near(j, i, j2, i2, buf), hit(j2, i2)), v))
        if qs:
            qq, oo = qs[0]
            wj, wi = [mk_int(w(*[zint(x) for x in oo])) if oo else mk_int(w()) for w in qq.wit]
            sj, si = j + wj - buf, i + wi - buf
            c.check('with buffer b: a marked cell intersects or has an intersecting cell within b rings',
                    s_implies(v, s_and(_near(j, i, sj, si, buf), hit(sj, si))))
        else:
            c.check('a cell marked without consulting its neighbourhood intersects the clip geometry', s_implies(v, hit(j, i)))
    if conv == 'ShocStandard':
        c.check('edge and node masks are present', {'left_mask', 'back_mask', 'node_mask'} <= set(m._vars))
    if conv == 'ShocStandard' and not buffered:
        # (holds for any face mask by the contract of c_mask_from_centres; instantiated here on the unbuffered mask)
        for kind, pat in (('left', 'left'), ('back', 'back'), ('node', 'node')):
            km = m._vars[kind + '_mask']
            c.check(f'{kind} mask lives on the {kind} dimensions', km.dims == tuple(ds.info['dims'][kind]))
            dj, di = PATTERNS[pat]
            ey, ex = ny + (1 if dj else 0), nx + (1 if di else 0)
            a, b = _cell(c, ey, ex, kind)
            c.check(f'{kind} locations are marked iff they belong to a marked cell',
                    s_eq(truthy(km.arr.at((a, b))), _smear_spec(pat, fm.arr, a, b, ny, nx)))


def scn_mesh_mask(c, fill, si, edges):
    """ugrid.mask_from_face_indexes: given the kept faces (any set, ascending), the mask renumbers the kept faces, exactly the nodes
    (and edges) of kept faces are kept, and new indexes are the ranks among the kept elements (dense, order preserving)."""
    from props.C10 import Table
    from pyvc.lib.seq import Selection
    from pyvc.lib.numpy_ import INT64, NDArray
    from contracts.ugrid import FILL_KEY
    it = new_interp(use=[FILL_KEY])           # sensible_fill_value through its contract (verified by C10)
    has_edges = bool(edges)
    derived = edges == 'derived'        # the mesh stores its edges (edge-node table) but no face-edge table: that one is derived
    ds = inputs.ugrid_mesh(c, fill=fill, start_index=si, edges='both' if has_edges else 'none', tables=('face_edge',) if has_edges and not derived else ())
    info = ds.info
    tabs = {}
    if has_edges:
        t = Table(c, 'face_edge', info['nface'], info['maxn'], 'int_fill', si, False, 'nface', 'maxn', info['nedge'])
        if not derived:
            ds._vars['face_edge'] = t.variable
        tabs['face_edge'] = t
        en = Table(c, 'edge_node', info['nedge'], 2, 'none', si, False, 'nedge', 'Two', info['nnode'])
        ds._vars['edge_node'] = en.variable
    topo = it.instantiate(cls(it, 'emsarray.conventions.ugrid', 'Mesh2DTopology'), [ds], {})
    if derived:
        from pyvc.lib.numpy_ import INT32
        # callee contract (C10): the derived face-edge table, rows padded with missing entries
        topo.attrs['face_edge_array'] = NDArray((info['nface'], info['maxn']), lambda i: t.val(i[0], i[1]), INT32, lambda i: mk_bool(zint(i[1]) >= zint(t.cnt(i[0]))))
    keepF = c.fresh_fn('keep_face', z3.IntSort(), z3.BoolSort())
    selF = Selection(info['nface'], lambda k: mk_bool(keepF(zint(k))), name='kept_face')
    face_indexes = NDArray((selF.count,), lambda i: selF.sel(i[0]), INT64)
    face_indexes.selection, face_indexes.sorted_unique = selF, True      # what numpy.sort(strtree.query(...)) / buffer_faces hand over: ascending, no repeats
    f = fn(it, 'emsarray.conventions.ugrid', 'mask_from_face_indexes')
    mask = expect_ok(c, 'mask_from_face_indexes returns', lambda: call(it, f, face_indexes, topo))
    want = {'new_face_index', 'new_node_index'} | ({'new_edge_index'} if has_edges else set())
    c.check('one renumbering table per element kind the mesh has', set(mask._vars) == want)
    if set(mask._vars) != want:
        raise PathEnd()
    # ---- faces ---------------------------------------------------------------------------------------------------------------------
    nf = mask._vars['new_face_index']
    c.check('new_face_index: one entry per face of the input', nf.dims == ('old_face_index',) and s_eq(nf.arr.shape[0], info['nface']))
    fq = c.fresh_int('fq')
    c.assume(fq >= 0)
    c.assume(fq < info['nface'])
    v = nf.arr.fn((fq,))
    c.check('a face is dropped (NaN) exactly when it is not among the given faces', s_eq(v.is_nan(), s_not(mk_bool(keepF(fq.z)))))
    c.check('a kept face gets its rank among the kept faces: contiguous from 0, original order', s_implies(mk_bool(keepF(fq.z)), s_and(v.is_fin(), s_eq(v.val, selF.rank(fq)))))
    c.check('the fill value recorded for saving exceeds every index', nf.encoding.get('_FillValue') is not None)
    # ---- nodes / edges: kept exactly when they belong to a kept face ---------------------------------------------------------------
    kf, j = c.fresh_int('kf'), c.fresh_int('jcol')
    c.assume(kf >= 0)
    c.assume(kf < selF.count)
    c.assume(j >= 0)
    c.assume(j < info['maxn'])
    f_old = selF.sel(kf)
    for what, size, element, present in (('node', info['nnode'], lambda: info['mesh_node'](f_old, j), lambda: mk_bool(zint(j) < zint(info['mesh_count'](f_old)))),) + \
            ((('edge', info['nedge'], lambda: tabs['face_edge'].val(f_old, j), lambda: mk_bool(zint(j) < zint(tabs['face_edge'].cnt(f_old)))),) if has_edges else ()):
        tab = mask._vars[f'new_{what}_index']
        c.check(f'new_{what}_index: one entry per {what} of the input', tab.dims == (f'old_{what}_index',) and s_eq(tab.arr.shape[0], size))
        e = element()
        got = tab.arr.fn((e,))
        order = (['edge', 'node'] if has_edges else ['node'])
        regs = list(getattr(c, 'valuesets', []))
        vs = (regs[order.index(what)], regs[order.index(what)].source_array) if len(regs) == len(order) else None
        c.check(f'new_{what}_index is built from the set of {what}s named by the kept faces', vs is not None)
        if vs is None:
            continue
        uniq, src = vs
        # ghost: entry (kf, j) of the kept rows sits at some position of the compressed list -- instantiate "that value occurs"
        _ghost_occurs(c, uniq, src, kf, j, info['maxn'])
        c.check(f'every {what} of a kept face is kept', s_implies(present(), got.is_fin()))
        c.check(f'... and is numbered by its rank among the kept {what}s (dense, order preserving)',
                s_implies(present(), s_eq(got.val, uniq.selection.rank(e))))
        # conversely: a kept element is named by some kept face (witness from the value-set model)
        n = c.fresh_int(what + 'q')
        c.assume(n >= 0)
        c.assume(n < size)
        gv = tab.arr.fn((n,))
        a_src, wit, occurs, U = uniq.valueset
        p = mk_int(wit(n.z))
        comp_self, flat, keepmask = src.compressed_of
        flatpos = src.selection.sel(p)
        kk, jj = mk_int(zint(flatpos) / zint(info['maxn'])), mk_int(zint(flatpos) % zint(info['maxn']))
        f_w = selF.sel(kk)
        elem_w = info['mesh_node'](f_w, jj) if what == 'node' else tabs['face_edge'].val(f_w, jj)
        pres_w = mk_bool(zint(jj) < zint(info['mesh_count'](f_w) if what == 'node' else tabs['face_edge'].cnt(f_w)))
        c.check(f'a kept {what} belongs to a kept face (no {what} outside the selection survives)',
                s_implies(gv.is_fin(), s_and(mk_bool(z3.And(zint(kk) >= 0, zint(kk) < zint(selF.count))), pres_w, s_eq(elem_w, n))))


def scn_buffer_faces(c, fill, si, face_face=False):
    """ugrid.buffer_faces: the given faces plus every face that shares a node with one of them, ascending, each once"""
    from contracts.ugrid import FILL_KEY
    from pyvc.lib.seq import Selection
    from pyvc.lib.numpy_ import INT64, NDArray
    it = new_interp(use=[FILL_KEY])
    ds = inputs.ugrid_mesh(c, fill=fill, start_index=si, edges='none', tables=('face_face',) if face_face else ())
    info = ds.info
    if face_face:
        # a valid stored face-face table (arbitrary content): rings are defined by shared NODES, the table must not replace that
        from props.C10 import Table
        ds._vars['face_face'] = Table(c, 'face_face', info['nface'], info['maxn'], 'int_fill', si, False, 'nface', 'maxn', info['nface']).variable
    topo = it.instantiate(cls(it, 'emsarray.conventions.ugrid', 'Mesh2DTopology'), [ds], {})
    keepF = c.fresh_fn('keep_face', z3.IntSort(), z3.BoolSort())
    selF = Selection(info['nface'], lambda k: mk_bool(keepF(zint(k))), name='given_face')
    face_indexes = NDArray((selF.count,), lambda i: selF.sel(i[0]), INT64)
    face_indexes.selection, face_indexes.sorted_unique = selF, True
    f = fn(it, 'emsarray.conventions.ugrid', 'buffer_faces')
    out = expect_ok(c, 'buffer_faces returns', lambda: call(it, f, face_indexes, topo))
    sel = getattr(out, 'selection', None)
    c.check('the result enumerates faces in ascending order, each once (a selection over the face range)', sel is not None and len(out.shape) == 1)
    if sel is None:
        raise PathEnd()
    regs = list(getattr(c, 'valuesets', []))
    c.check('the node set of the given faces is formed once', len(regs) == 1)
    if len(regs) != 1:
        raise PathEnd()
    uniq, src = regs[0], regs[0].source_array
    a_src, wit, occurs, U = uniq.valueset
    maxn = info['maxn']
    node, cnt = info['mesh_node'], info['mesh_count']
    fq = c.fresh_int('fq')
    c.assume(fq >= 0)
    c.assume(fq < info['nface'])
    inres = sel.keep(fq)
    # (1) a given face is in the result
    c.check('every given face is in the result', s_implies(mk_bool(keepF(fq.z)), inres))
    # (2) a face sharing a node with a given face is in the result: Skolem given face g (rank kg), columns jg of g and jf of fq
    kg, jg, jf = c.fresh_int('kg'), c.fresh_int('jg'), c.fresh_int('jf')
    for q, n_ in ((kg, selF.count), (jg, maxn), (jf, maxn)):
        c.assume(q >= 0)
        c.assume(q < n_)
    g = selF.sel(kg)
    _ghost_occurs(c, uniq, src, kg, jg, maxn)
    shares = s_and(mk_bool(zint(jg) < zint(cnt(g))), mk_bool(zint(jf) < zint(cnt(fq))), s_eq(node(g, jg), node(fq, jf)))
    c.check('every face that shares a node with a given face is in the result', s_implies(shares, inres))
    # (3) nothing else: a face in the result is given, or one of its nodes is a node of a given face (witness of the value set)
    some = []
    for j in range(maxn):
        nj = node(fq, j)
        p = mk_int(wit(zint(nj)))
        flatpos = src.selection.sel(p)
        kk, jj = mk_int(zint(flatpos) / maxn), mk_int(zint(flatpos) % maxn)
        gw = selF.sel(kk)
        some.append(s_and(mk_bool(j < zint(cnt(fq))), mk_bool(z3.And(zint(kk) >= 0, zint(kk) < zint(selF.count))), mk_bool(zint(jj) < zint(cnt(gw))),
                          s_eq(node(gw, jj), nj)))
    c.check('a face in the result is a given face or shares a node with a given face (nothing else is added)',
            s_implies(inres, s_or(mk_bool(keepF(fq.z)), *some)))


def scn_mesh_clip(c, buffer):
    """UGrid.make_clip_mask: one intersects query, ascending face numbering whatever order the spatial index answers in, `buffer` rings"""
    from contracts.ugrid import FILL_KEY
    it = new_interp(use=POLY_KEYS + [FILL_KEY])
    ds, cv = inputs.make_convention(it, c, 'UGridMesh', fill='int_fill', start_index=1, edges='none')
    info = ds.info
    g = SVal(z3.FreshConst(GeomSort, 'clip'))
    m = expect_ok(c, 'make_clip_mask returns', lambda: method(it, cv, 'make_clip_mask', g, buffer=buffer))
    polys = abstract_polygons(cv)
    q = [e for e in c.events if e[0] == 'STRtree.query']
    c.check('faces are found with one spatial query of the clip geometry using the intersects predicate', len(q) == 1 and q[0][2] is g and q[0][3] == 'intersects' and q[0][1] is polys)
    pred = core.ctx()._shp_fns['pred_intersects']

    def hit(f):
        return mk_bool(z3.And(zint(f) >= 0, zint(f) < zint(info['nface']), z3.Not(polys.hole(zint(f))), pred(g.z, polys.poly(zint(f)))))
    nf = m._vars['new_face_index']
    f1, f2 = c.fresh_int('f1'), c.fresh_int('f2')
    for q_ in (f1, f2):
        c.assume(q_ >= 0)
        c.assume(q_ < info['nface'])
    v1, v2 = nf.arr.fn((f1,)), nf.arr.fn((f2,))
    if buffer == 0:
        c.check('without buffer a face is kept exactly when its polygon intersects the clip geometry', s_eq(v1.is_fin(), hit(f1)))
    else:
        c.check('with a buffer every intersecting face is still kept', s_implies(hit(f1), v1.is_fin()))
    c.check('kept faces are numbered in their original order (whatever order the spatial index answered in)',
            s_implies(s_and(v1.is_fin(), v2.is_fin(), mk_bool(f1.z < f2.z)), mk_bool(zreal_(v1) < zreal_(v2))))
    c.check('new face numbers start at 0 and are contiguous: the number of a kept face is below the number of kept faces',
            s_implies(v1.is_fin(), mk_bool(zreal_(v1) >= 0)))


def zreal_(v):
    from pyvc.core import zreal
    return zreal(v.val)


def _valueset_of(tab):
    """the value-set array behind new_X_index (ghost access through the store that built the table)"""
    return getattr(tab.arr, '_ghost_index_source', None)


def _ghost_occurs(c, uniq, src, kf, j, maxn):
    """the entry (kf, j) of the kept rows is unmasked => it sits at compressed position rank(kf * maxn + j) => its value occurs"""
    flatn = kf * maxn + j
    r = src.selection.rank(flatn)
    src.selection.sel(r)
    uniq.value_at(r)


NATIVE = {'blur_mask': 'blur_exhaustive', 'smear_mask': 'smear_exhaustive', '': 'clip_masks'}
