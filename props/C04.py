"""C04 -- point lookup returns exactly the lowest-indexed intersecting cell.

Under contract (real bodies): Convention.get_index_for_point, select_point, SpatialIndexItem, wind_index (C01).
Callee contracts: Convention.polygons / strtree (abstract polygon array with holes), SH-STRTREE-QUERY (hits in unspecified
order, without repeats, exactly the positions whose polygon satisfies the predicate), NP-SORT.
H(p) = { n | polygons[n] is not None and intersects(p, polygons[n]) }.
"""
from __future__ import annotations

import z3

from contracts import inputs
from contracts.base import POLY_KEYS, abstract_polygons
from pyvc import core
from pyvc.api import (PathEnd, attr, call, cls, expect_ok, expect_raise, fn, method, mk_bool, mk_int, new_interp, outcome,
                      s_and, s_eq, s_implies, s_not, truthy, zint)
from pyvc.contract import Contract
from pyvc.core import GeomSort, Maybe, SVal
from pyvc.interp import Obj, exc_matches
from pyvc.lib.numpy_ import unravel
from pyvc.lib.stdlib import OpaqueValue

from props._contracts import polygon_contract_scenarios, scn_polygon_contract  # noqa: F401

PROPERTY = 'C04'
CONVS = [('CFGrid1D', {}), ('CFGrid2D', {}), ('ShocSimple', {}), ('ShocStandard', {}), ('UGrid', {'edges': 'none'}), ('UGrid', {'edges': 'both'})]


def scenarios(tier):
    out = []
    for ci, (conv, kw) in enumerate(CONVS):
        out.append({'name': f'get_index_for_point[{conv} {kw}]', 'fn': 'scn_lookup', 'kwargs': {'ci': ci}})
        out.append({'name': f'get_index_for_point after an earlier lookup[{conv} {kw}]', 'fn': 'scn_lookup', 'kwargs': {'ci': ci, 'history': True}})
        out.append({'name': f'select_point[{conv} {kw}]', 'fn': 'scn_select_point', 'kwargs': {'ci': ci}})
    out += polygon_contract_scenarios()
    return out


def _hit(polys, pred, p, n, size):
    nz = zint(n)
    return mk_bool(z3.And(nz >= 0, nz < zint(size), z3.Not(polys.hole(nz)), pred(p.z, polys.poly(nz))))


def scn_lookup(c, ci, history=False):
    conv_name, kw = CONVS[ci]
    it = new_interp(use=POLY_KEYS)
    ds, conv = inputs.make_convention(it, c, conv_name, **kw)
    shape = ds.info['shape']['face']
    size = 1
    for n_ in shape:
        size = size * n_
    p = SVal(z3.FreshConst(GeomSort, 'point'))
    if history:
        # an earlier lookup of another point on the same convention object: the answer for p does not depend on it
        p0 = SVal(z3.FreshConst(GeomSort, 'earlier_point'))
        expect_ok(c, 'an earlier lookup returns', lambda: method(it, conv, 'get_index_for_point', p0))
    n_ev = len(c.events)
    res = expect_ok(c, 'get_index_for_point returns (never raises)', lambda: method(it, conv, 'get_index_for_point', p))
    polys = abstract_polygons(conv)
    ev = c.events[n_ev:]
    q = [e for e in ev if e[0] == 'STRtree.query']
    one_query = len(q) == 1 and q[0][2] is p and q[0][3] == 'intersects' and q[0][1] is polys
    c.check('exactly one spatial query, of the point itself, with predicate intersects (contains or touches; no tolerance, no other predicate)', one_query)
    if not one_query:
        raise PathEnd()
    c.check('nearest-neighbour search is never used', not any(e[0] == 'STRtree.nearest' for e in ev))
    pred = core.ctx()._shp_fns['pred_intersects']
    m = c.fresh_int('m')          # an arbitrary position
    c.assume(m >= 0)
    c.assume(m < size)
    sels = getattr(c, 'selections', [])
    for s in sels:
        s.nonempty_iff(m)
    if res is None:
        c.check('no result only when no cell polygon intersects the point', s_not(_hit(polys, pred, p, m, size)))
        return
    c.check('the result is a SpatialIndexItem', isinstance(res, Obj) and res.cls.name == 'SpatialIndexItem')
    li = it.getattr(res, 'linear_index')
    c.check('the returned position is a cell with geometry that intersects the point (never a hole)', _hit(polys, pred, p, li, size))
    for s in sels:
        r = s.rank(m)
        s.sel(r)
    c.check('no intersecting cell has a lower linear index', s_implies(_hit(polys, pred, p, m, size), mk_bool(zint(li) <= zint(m))))
    km = inputs.kind_member(it, conv_name if conv_name != 'ShocSimple' else 'CFGrid2D', 'face')
    c.check('the native index of the result is the native index of that same cell',
            s_eq(it.getattr(res, 'index'), inputs.native_index(conv_name, km, unravel(li, tuple(shape)))))
    poly = it.getattr(res, 'polygon')
    if isinstance(poly, Maybe):
        c.check('the polygon of the result exists', s_not(poly.none))
        poly = poly.val
    c.check('the polygon of the result is the polygon stored at that position', mk_bool(poly.term == polys.poly(zint(li))))


def _select_index_stub(it, a):
    core.ctx().event('call', 'select_index', a['self'], a['index'], a.get('drop_geometry'))
    return OpaqueValue('selected-dataset')


SELECT_INDEX = Contract('emsarray.conventions._base', 'Convention.select_index', post=_select_index_stub, verified_by='C05')


def scn_select_point(c, ci):
    conv_name, kw = CONVS[ci]
    it = new_interp(use=POLY_KEYS)
    it.contracts[SELECT_INDEX.key] = SELECT_INDEX
    ds, conv = inputs.make_convention(it, c, conv_name, **kw)
    p = SVal(z3.FreshConst(GeomSort, 'point'))
    kind, val = outcome(lambda: method(it, conv, 'select_point', p))
    calls = [e for e in c.events if e[0] == 'call' and e[1] == 'select_index']
    hits = [s for s in getattr(c, 'selections', [])]
    if kind == 'raise':
        c.check('a point outside every cell is refused with ValueError (no nearest cell is substituted)', exc_matches(val, ValueError) and not calls)
        if hits:
            c.check('... and only then', mk_bool(hits[-1].count.z == 0))
    else:
        c.check('a hit selects exactly one index', len(calls) == 1)
        if hits:
            c.check('select_point succeeds only when some cell intersects', mk_bool(hits[-1].count.z > 0))
        if calls and not hits:
            c.fail('the selected index is the native index of the lowest intersecting cell', note='hits are not put in increasing order')
        if calls and hits:
            km = inputs.kind_member(it, conv_name if conv_name != 'ShocSimple' else 'CFGrid2D', 'face')
            li = hits[-1].sel(0)
            c.check('the selected index is the native index of the lowest intersecting cell',
                    s_eq(calls[0][3], inputs.native_index(conv_name, km, unravel(li, tuple(ds.info['shape']['face'])))))


NATIVE = {'': 'point_lookup'}
