"""C03 -- flattening and winding variables are exact inverses.

Functions under contract: utils.move_dimensions_to_end, ravel_dimensions, wind_dimension, splice_tuple,
find_unused_dimension; DimensionConvention.get_grid_kind / ravel / wind (+ grid_dimensions of each convention).
Values are of an uninterpreted sort: "moved, never altered" holds by construction of the encoding and every
elementwise obligation is proved at a Skolem index for all extents.
"""
from __future__ import annotations

import itertools

import z3

from contracts import inputs
from pyvc.api import (PathEnd, XDataArray, attr, call, expect_ok, expect_raise, fn, method, mk_bool, new_interp,
                      s_and, s_eq, sym_array, sym_size, zint)
from pyvc.lib.numpy_ import unravel

PROPERTY = 'C03'

GRIDS = [
    # (convention, builder kwargs, kind)
    ('CFGrid1D', {}, 'face'),
    ('CFGrid2D', {}, 'face'),
    ('ShocStandard', {}, 'face'),
    ('ShocStandard', {}, 'left'),
    ('ShocStandard', {}, 'back'),
    ('ShocStandard', {}, 'node'),
    ('UGrid', {'edges': 'both'}, 'face'),
    ('UGrid', {'edges': 'both'}, 'edge'),
    ('UGrid', {'edges': 'none'}, 'node'),
    # a mesh that names an edge dimension no variable is defined on (the dimension has no size): faces and nodes flatten and wind as ever
    ('UGrid', {'edges': 'dimension', 'edge_data': False}, 'face'),
]
EXTRA_NAMES = ['t', 'z', 'w']
GRID_DIMS = {
    ('CFGrid1D', 'face'): ('lat', 'lon'), ('CFGrid2D', 'face'): ('j', 'i'),
    ('ShocStandard', 'face'): ('j_centre', 'i_centre'), ('ShocStandard', 'left'): ('j_left', 'i_left'),
    ('ShocStandard', 'back'): ('j_back', 'i_back'), ('ShocStandard', 'node'): ('j_node', 'i_node'),
    ('UGrid', 'face'): ('nface',), ('UGrid', 'edge'): ('nedge',), ('UGrid', 'node'): ('nnode',),
}


def _perms(gi, n_extra):
    conv, kw, kind = GRIDS[gi]
    names = list(GRID_DIMS[(conv, kind)]) + EXTRA_NAMES[:n_extra]
    return list(itertools.permutations(names))


def scenarios(tier):
    out = []
    max_extra = 2 if tier == 'quick' else 3
    quick_grids = [0, 3, 6, 9] if tier == 'quick' else range(len(GRIDS))
    for gi in range(len(GRIDS)):
        conv, kw, kind = GRIDS[gi]
        for ne in range(0, max_extra + 1):
            if gi not in quick_grids and ne > 1:
                continue
            for perm in _perms(gi, ne):
                tag = f'{conv}.{kind}[{",".join(perm)}]'
                out.append({'name': f'{tag}.ravel', 'fn': 'scn_ravel', 'kwargs': {'gi': gi, 'perm': perm, 'linear': None}})
                out.append({'name': f'{tag}.wind_ravel', 'fn': 'scn_wind_ravel', 'kwargs': {'gi': gi, 'perm': perm}})
        # custom linear names (fresh, colliding with a grid dimension, 'index' taken so index_0.. is searched)
        base = _perms(gi, 1)
        for perm in (base[0], base[-1]):
            tag = f'{conv}.{kind}[{",".join(perm)}]'
            gd = GRID_DIMS[(conv, kind)]
            for lin in ('cells', gd[-1], gd[0]):
                out.append({'name': f'{tag}.ravel(linear={lin})', 'fn': 'scn_ravel',
                            'kwargs': {'gi': gi, 'perm': perm, 'linear': lin}})
                out.append({'name': f'{tag}.wind_ravel(linear={lin})', 'fn': 'scn_wind_ravel',
                            'kwargs': {'gi': gi, 'perm': perm, 'linear': lin}})
        for taken in (('index',), ('index', 'index_0'), ('index_0',), ('index', 'index_1')):
            out.append({'name': f'{conv}.{kind}.auto_name{list(taken)}', 'fn': 'scn_auto_name',
                        'kwargs': {'gi': gi, 'taken': taken}})
        # ravel after wind, linear dimension at every position, by axis / by name / default
        for ne in range(0, (1 if tier == 'quick' and gi not in quick_grids else max_extra) + 1):
            others = EXTRA_NAMES[:ne]
            for p in range(ne + 1):
                for how in (('axis',) if p < ne else ('axis', 'default')) + ('name',):
                    out.append({'name': f'{conv}.{kind}.ravel_wind[{ne} extra, pos {p}, by {how}]',
                                'fn': 'scn_ravel_wind', 'kwargs': {'gi': gi, 'others': tuple(others), 'pos': p, 'how': how}})
            if ne >= 1:
                out.append({'name': f'{conv}.{kind}.ravel_wind[{ne} extra, axis -{ne + 1}]', 'fn': 'scn_ravel_wind',
                            'kwargs': {'gi': gi, 'others': tuple(others), 'pos': 0, 'how': 'negaxis'}})
        out.append({'name': f'{conv}.{kind}.refuse', 'fn': 'scn_refuse', 'kwargs': {'gi': gi}})
        out.append({'name': f'{conv}.{kind}.size_mismatch', 'fn': 'scn_size_mismatch', 'kwargs': {'gi': gi}})
    out.append({'name': 'utils.find_unused_dimension', 'fn': 'scn_find_unused', 'kwargs': {}})
    out.append({'name': 'utils.splice_tuple', 'fn': 'scn_splice', 'kwargs': {}})
    return out


def _setup(c, gi, perm=None, extra_taken=()):
    conv_name, kw, kind = GRIDS[gi]
    it = new_interp()
    extra = []
    if perm is not None:
        extra.append(('v', tuple(perm)))
    kw = dict(kw)
    kw['extra'] = extra
    ds, conv = inputs.make_convention(it, c, conv_name, **kw)
    km = inputs.kind_member(it, conv_name, kind)
    gdims = GRID_DIMS[(conv_name, kind)]
    gshape = ds.info['shape'][kind]
    assert tuple(ds.info['dims'][kind]) == tuple(gdims)
    return it, ds, conv, km, gdims, gshape


def _skolem(c, dims, sizes, prefix='o'):
    idx = {}
    for d in dims:
        k = c.fresh_int(f'{prefix}_{d}')
        c.assume(k >= 0)
        c.assume(k < sizes[d])
        idx[d] = k
    return idx


def _expected_linear_name(requested, dims_of_moved):
    if requested is not None:
        return requested
    if 'index' not in dims_of_moved:
        return 'index'
    k = 0
    while f'index_{k}' in dims_of_moved:
        k += 1
    return f'index_{k}'


def _check_ravel(c, it, conv, x, gdims, gshape, linear, tag=''):
    kwargs = {} if linear is None else {'linear_dimension': linear}
    r = expect_ok(c, tag + 'ravel returns for a variable on the grid', lambda: method(it, conv, 'ravel', x, **kwargs))
    others = tuple(d for d in x.dims if d not in gdims)
    lin = _expected_linear_name(linear, set(x.dims))
    c.check(tag + 'ravel: other dimensions keep their order, linear dimension last', tuple(r.dims) == others + (lin,))
    if tuple(r.dims) != others + (lin,):
        raise PathEnd()
    sizes = dict(zip(x.dims, x.shape))
    size = 1
    for n in gshape:
        size = size * n
    c.check(tag + 'ravel: extent of the linear dimension is the grid size',
            s_and(*[s_eq(a, b) for a, b in zip(r.shape, tuple(sizes[d] for d in others) + (size,))]))
    o = _skolem(c, others, sizes)
    n = c.fresh_int('n')
    c.assume(n >= 0)
    c.assume(n < size)
    cell = dict(zip(gdims, unravel(n, tuple(gshape))))
    src_idx = tuple(o[d] if d in o else cell[d] for d in x.dims)
    got = r.values.at(tuple(o[d] for d in others) + (n,))
    c.check(tag + 'ravel: element n of the flattened variable is the value stored at cell(n) (row-major)',
            s_eq(got, x.values.at(src_idx)))
    return r, others, lin, sizes


def scn_ravel(c, gi, perm, linear):
    it, ds, conv, km, gdims, gshape = _setup(c, gi, perm)
    x = ds._da('v')
    _check_ravel(c, it, conv, x, gdims, gshape, linear)


def scn_wind_ravel(c, gi, perm, linear=None):
    it, ds, conv, km, gdims, gshape = _setup(c, gi, perm)
    x = ds._da('v')
    kwargs = {} if linear is None else {'linear_dimension': linear}
    r = expect_ok(c, 'ravel returns', lambda: method(it, conv, 'ravel', x, **kwargs))
    w = expect_ok(c, 'wind(ravel(x)) returns', lambda: method(it, conv, 'wind', r, grid_kind=km, **kwargs))
    others = tuple(d for d in x.dims if d not in gdims)
    c.check('wind(ravel(x)): other dimensions untouched and in order, grid dimensions restored in convention order',
            tuple(w.dims) == others + tuple(gdims))
    if tuple(w.dims) != others + tuple(gdims):
        raise PathEnd()
    sizes = dict(zip(x.dims, x.shape))
    c.check('wind(ravel(x)): extents restored',
            s_and(*[s_eq(a, sizes[d]) for a, d in zip(w.shape, w.dims)]))
    idx = _skolem(c, w.dims, sizes)
    c.check('wind(ravel(x)) reproduces every original value',
            s_eq(w.values.at(tuple(idx[d] for d in w.dims)), x.values.at(tuple(idx[d] for d in x.dims))))


def scn_auto_name(c, gi, taken):
    """default linear name when 'index' (and index_k) are already dimensions of the variable"""
    it, ds, conv, km, gdims, gshape = _setup(c, gi)
    sizes = dict(zip(gdims, gshape))
    dims = tuple(taken) + tuple(gdims)
    shape = tuple(sym_size(c, f'n_{d}') for d in taken) + tuple(gshape)
    x = XDataArray(data=sym_array(c, 'xv', shape, 'V'), dims=dims)
    _check_ravel(c, it, conv, x, gdims, gshape, None)


def scn_ravel_wind(c, gi, others, pos, how):
    it, ds, conv, km, gdims, gshape = _setup(c, gi)
    size = 1
    for n in gshape:
        size = size * n
    lin_name = 'index' if how != 'name' else 'cells'
    dims = tuple(others[:pos]) + (lin_name,) + tuple(others[pos:])
    osz = {d: sym_size(c, f'n_{d}') for d in others}
    shape = tuple(osz[d] if d in osz else size for d in dims)
    y = XDataArray(data=sym_array(c, 'yv', shape, 'V'), dims=dims)
    kwargs = {'grid_kind': km}
    if how == 'axis':
        kwargs['axis'] = pos
    elif how == 'negaxis':
        kwargs['axis'] = pos - len(dims)
    elif how == 'name':
        kwargs['linear_dimension'] = lin_name
    w = expect_ok(c, 'wind returns for linear data of the right length', lambda: method(it, conv, 'wind', y, **kwargs))
    exp_dims = tuple(others[:pos]) + tuple(gdims) + tuple(others[pos:])
    c.check('wind: grid dimensions replace the linear dimension in place, others untouched', tuple(w.dims) == exp_dims)
    if tuple(w.dims) != exp_dims:
        raise PathEnd()
    gsz = dict(zip(gdims, gshape))
    c.check('wind: extents', s_and(*[s_eq(a, gsz[d] if d in gsz else osz[d]) for a, d in zip(w.shape, w.dims)]))
    allsz = dict(osz)
    allsz.update(gsz)
    idx = _skolem(c, exp_dims, allsz)
    lin = 0
    for d, n in zip(gdims, gshape):
        lin = lin * n + idx[d]
    c.check('wind: cell (j,i) of the wound variable is element row-major(j,i) of the linear data',
            s_eq(w.values.at(tuple(idx[d] for d in exp_dims)),
                 y.values.at(tuple(idx[d] if d in idx else lin for d in dims))))
    r = expect_ok(c, 'ravel(wind(y)) returns', lambda: method(it, conv, 'ravel', w))
    c.check('ravel(wind(y)): dims are the others in order plus the linear dimension', tuple(r.dims) == tuple(others) + ('index',))
    if tuple(r.dims) != tuple(others) + ('index',):
        raise PathEnd()
    o = _skolem(c, others, osz, 'q')
    n = c.fresh_int('n')
    c.assume(n >= 0)
    c.assume(n < size)
    c.check('ravel(wind(y)) is the identity on linear data',
            s_eq(r.values.at(tuple(o[d] for d in others) + (n,)),
                 y.values.at(tuple(o[d] if d in o else n for d in dims))))


def scn_refuse(c, gi):
    it, ds, conv, km, gdims, gshape = _setup(c, gi)
    # a variable that lacks (one of) the grid dimensions of every grid kind
    dims = ('t', 'somewhere')
    x = XDataArray(data=sym_array(c, 'xv', (sym_size(c, 'nt'), sym_size(c, 'ns')), 'V'), dims=dims)
    expect_raise(c, 'a variable not defined on any grid is refused with ValueError',
                 lambda: method(it, conv, 'ravel', x), ValueError)
    if len(gdims) == 2:
        x2 = XDataArray(data=sym_array(c, 'xw', (sym_size(c, 'nt2'), gshape[0]), 'V'), dims=('t', gdims[0]))
        expect_raise(c, 'a variable with only one of the two grid dimensions is refused with ValueError',
                     lambda: method(it, conv, 'ravel', x2), ValueError)


def scn_size_mismatch(c, gi):
    it, ds, conv, km, gdims, gshape = _setup(c, gi)
    size = 1
    for n in gshape:
        size = size * n
    m = sym_size(c, 'm')
    c.assume(mk_bool(zint(m) != zint(size)))
    y = XDataArray(data=sym_array(c, 'yv', (m,), 'V'), dims=('index',))
    expect_raise(c, 'winding linear data whose length is not the grid size raises',
                 lambda: method(it, conv, 'wind', y, grid_kind=km))


def scn_find_unused(c):
    it = new_interp()
    f = fn(it, 'emsarray.utils', 'find_unused_dimension')
    for dims in [(), ('a',), ('index',), ('index', 'index_0'), ('index', 'index_1'), ('index_0',),
                 ('index', 'index_0', 'index_1', 'index_2'), ('point', 'index')]:
        shape = tuple(sym_size(c, f'n{k}') for k in range(len(dims)))
        x = XDataArray(data=sym_array(c, 'xv', shape, 'V'), dims=dims)
        for prefix in ('index', 'point'):
            r = expect_ok(c, 'find_unused_dimension returns', lambda: call(it, f, x, prefix))
            c.check(f'find_unused_dimension({list(dims)}, {prefix!r}) is not an existing dimension', r not in dims)
            c.check(f'find_unused_dimension({list(dims)}, {prefix!r}) is the prefix or the least prefix_k not present',
                    r == _expected_linear_name(None, set(dims)).replace('index', prefix)
                    if prefix == 'index' else r == (prefix if prefix not in dims else
                                                    next(f'{prefix}_{k}' for k in range(10) if f'{prefix}_{k}' not in dims)))


def scn_splice(c):
    it = new_interp()
    f = fn(it, 'emsarray.utils', 'splice_tuple')
    t = ('a', 'b', 'c', 'd')
    for i in range(4):
        for vals in ((), ('x',), ('x', 'y')):
            r = expect_ok(c, 'splice_tuple returns', lambda: call(it, f, t, i, vals))
            c.check(f'splice_tuple(t, {i}, {vals}) replaces exactly element {i}', r == t[:i] + tuple(vals) + t[i + 1:])


NATIVE = {'': 'ravel_wind'}
