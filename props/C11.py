"""C11 -- convention detection and binding are deterministic and stable.

Under contract (real bodies): check_dataset of CFGrid1D / CFGrid2D / ShocSimple / ShocStandard(ArakawaC) / UGrid with the
topology helpers they call; ConventionRegistry.{conventions, add_convention, match_conventions, guess_convention},
entry_point_conventions, get_dataset_convention, register_convention; accessors.ems_accessor; State; Convention.__init__/bind.
Dataset *structure* (names, attributes, ranks) is enumerated, extents and contents are symbolic.
"""
from __future__ import annotations

import ast
import glob
import itertools
import os

from contracts import inputs
from pyvc import core
from pyvc.api import (PathEnd, XDataset, add_var, attr, call, cls, expect_ok, expect_raise, fn, method, new_interp,
                      outcome, sym_array, sym_size)
from pyvc.interp import ClassInfo, Obj, exc_matches
from pyvc.core import mk_bool, zint
import z3
from pyvc.lib import numpy_ as np
from pyvc.loader import SRC_ROOT

PROPERTY = 'C11'

CLASSES = {
    'CFGrid1D': ('emsarray.conventions.grid', 'CFGrid1D'), 'CFGrid2D': ('emsarray.conventions.grid', 'CFGrid2D'),
    'ShocSimple': ('emsarray.conventions.shoc', 'ShocSimple'), 'ShocStandard': ('emsarray.conventions.shoc', 'ShocStandard'),
    'ArakawaC': ('emsarray.conventions.arakawa_c', 'ArakawaC'), 'UGrid': ('emsarray.conventions.ugrid', 'UGrid'),
}
ENTRY_ORDER = ['ArakawaC', 'CFGrid1D', 'CFGrid2D', 'ShocSimple', 'ShocStandard', 'UGrid']
LOW, MEDIUM, HIGH = 10, 20, 30


def _drop_attr(var, key):
    def f(ds):
        ds._vars[var].attrs.pop(key, None)
    return f


def _set_attr(var, key, value):
    def f(ds):
        ds._vars[var].attrs[key] = value
    return f


def _drop_var(name):
    def f(ds):
        del ds._vars[name]
        ds._coord_names.discard(name)
    return f


def _global(key, value=None, drop=False):
    def f(ds):
        if drop:
            ds.attrs.pop(key, None)
        else:
            ds.attrs[key] = value
    return f


# (name, builder, builder kwargs, modifications, expected {class: specificity})  -- the decision table of the property
VARIANTS = [
    ('cf1d units', 'cf1d', {}, [], {'CFGrid1D': LOW}),
    ('cf1d standard_name', 'cf1d', {'detect': 'standard_name'}, [], {'CFGrid1D': LOW}),
    ('cf1d axis', 'cf1d', {'detect': 'axis'}, [], {'CFGrid1D': LOW}),
    ('cf1d plain variables', 'cf1d', {'as_coords': False}, [], {'CFGrid1D': LOW}),
    ('cf1d latitude units removed', 'cf1d', {}, [_drop_attr('lat', 'units')], {}),
    ('cf1d longitude units removed', 'cf1d', {}, [_drop_attr('lon', 'units')], {}),
    ('cf1d units misspelt', 'cf1d', {}, [_set_attr('lat', 'units', 'degrees')], {}),
    ('cf2d', 'cf2d', {}, [], {'CFGrid2D': LOW}),
    ('cf2d without standard_name', 'cf2d', {'std_names': False}, [], {'CFGrid2D': LOW}),
    ('cf2d longitude removed', 'cf2d', {}, [_drop_var('lon')], {}),
    ('shoc simple', 'shoc_simple', {}, [], {'ShocSimple': HIGH, 'CFGrid2D': LOW}),
    ('shoc simple without ems_version', 'shoc_simple', {}, [_global('ems_version', drop=True)], {'CFGrid2D': LOW}),
    ('ems_version but dimensions y,x', 'cf2d', {'ydim': 'y', 'xdim': 'x', 'attrs': {'ems_version': '1'}}, [], {'CFGrid2D': LOW}),
    ('shoc standard', 'shoc_standard', {}, [], {'ShocStandard': HIGH, 'CFGrid2D': LOW}),
] + [
    (f'shoc standard without {name}', 'shoc_standard', {}, [_drop_var(name)], {'CFGrid2D': LOW})
    for name in ('x_centre', 'y_centre', 'x_left', 'y_left', 'x_back', 'y_back', 'x_grid', 'y_grid')
] + [
    ('ugrid', 'ugrid', {}, [], {'UGrid': HIGH}),
    ('ugrid with edges', 'ugrid', {'edges': 'both'}, [], {'UGrid': HIGH}),
    ('ugrid Conventions "CF-1.6, UGRID-1.0"', 'ugrid', {}, [_global('Conventions', 'CF-1.6, UGRID-1.0')], {'UGrid': HIGH}),
    ('ugrid without Conventions', 'ugrid', {}, [_global('Conventions', drop=True)], {}),
    ('ugrid Conventions CF-1.6 only', 'ugrid', {}, [_global('Conventions', 'CF-1.6')], {}),
    ('ugrid marker only as an attribute NAME', 'ugrid', {}, [_global('Conventions', 'CF-1.6'), _global('UGRID', 'yes')], {}),
    ('ugrid without cf_role', 'ugrid', {}, [_drop_attr('mesh', 'cf_role')], {}),
    ('ugrid topology_dimension 1', 'ugrid', {}, [_set_attr('mesh', 'topology_dimension', 1)], {}),
    ('ugrid topology_dimension 3', 'ugrid', {}, [_set_attr('mesh', 'topology_dimension', 3)], {}),
    ('ugrid topology_dimension missing', 'ugrid', {}, [_drop_attr('mesh', 'topology_dimension')], {}),
    ('ugrid topology_dimension "2" (string)', 'ugrid', {}, [_set_attr('mesh', 'topology_dimension', '2')], {}),
    ('nothing recognisable', 'cf1d', {}, [_drop_attr('lat', 'units'), _drop_attr('lon', 'units')], {}),
    # near misses of the curvilinear grid: one of the two coordinates is not two-dimensional
    ('2-D latitude with a 1-D longitude', 'cf2d', {}, ['_lon_1d'], {}),
    ('1-D latitude with a 2-D longitude', 'cf2d', {}, ['_lat_1d'], {}),
    # a SHOC simple file that also carries 1-D station positions, stored ahead of the grid coordinates: still SHOC simple (its own (j, i)
    # coordinates are what makes it one); the generic 1-D test sees the station variables
    ('shoc simple with 1-D station latitude / longitude variables listed first', 'shoc_simple', {}, ['_prepend_stations'], {'ShocSimple': HIGH, 'CFGrid1D': LOW}),
    ('shoc simple with a 1-D station latitude listed first (no station longitude)', 'shoc_simple', {}, ['_prepend_station_lat'], {'ShocSimple': HIGH}),
    # a tie between two entry-point conventions: a SHOC standard file that also carries ems_version and dimensions j, i
    ('shoc standard that also looks like shoc simple (tie)', 'shoc_standard', {}, [_global('ems_version', 'v1.2'), '_add_ji'],
     {'ShocStandard': HIGH, 'ShocSimple': HIGH, 'CFGrid2D': LOW}),
]


def _add_ji(ds):
    from pyvc.api import sym_array
    n = list(ds._sizes().values())[0]
    c = core.ctx()
    add_var(ds, 'flag', ('j', 'i'), sym_array(c, 'flag', (n, n), 'V'))


def _prepend(ds, names):
    from pyvc.api import sym_array, sym_size
    c = core.ctx()
    old_vars, old_coords = dict(ds._vars), set(ds._coord_names)
    ds._vars.clear()
    n = sym_size(c, 'nstation', 0)
    for name, units in names:
        add_var(ds, name, ('station',), sym_array(c, name, (n,), 'floatnan'), {'units': units})
    for k, v in old_vars.items():
        ds._vars[k] = v
    ds._coord_names |= old_coords


def _prepend_stations(ds):
    _prepend(ds, [('station_lat', 'degrees_north'), ('station_lon', 'degrees_east')])


def _prepend_station_lat(ds):
    _prepend(ds, [('station_lat', 'degrees_north')])


def _coord_1d(ds, name, dim):
    from pyvc.api import sym_array
    c = core.ctx()
    v = ds._vars[name]
    n = ds._sizes()[dim]
    was_coord = name in ds._coord_names
    attrs = dict(v.attrs)
    keys = list(ds._vars)
    rest = {k: ds._vars[k] for k in keys}
    ds._vars.clear()
    for k in keys:
        if k == name:
            add_var(ds, name, (dim,), sym_array(c, name + '_1d', (n,), 'floatnan'), attrs, coord=was_coord)
        else:
            ds._vars[k] = rest[k]


def _lon_1d(ds):
    _coord_1d(ds, 'lon', 'i')


def _lat_1d(ds):
    _coord_1d(ds, 'lat', 'j')


_MODS = {'_lon_1d': _lon_1d, '_lat_1d': _lat_1d, '_add_ji': _add_ji, '_prepend_stations': _prepend_stations, '_prepend_station_lat': _prepend_station_lat}
for _k, _v in enumerate(VARIANTS):
    VARIANTS[_k] = (_v[0], _v[1], _v[2], [(_MODS[m] if isinstance(m, str) else m) for m in _v[3]], _v[4])
TIE_VARIANT = len(VARIANTS) - 1
BUILDERS = {'cf1d': inputs.cf1d, 'cf2d': inputs.cf2d, 'shoc_simple': inputs.shoc_simple, 'shoc_standard': inputs.shoc_standard,
            'ugrid': inputs.ugrid}

TOY_SPECS = [None, LOW, HIGH]


def scenarios(tier):
    out = []
    for vi, v in enumerate(VARIANTS):
        out.append({'name': f'check_dataset[{v[0]}]', 'fn': 'scn_table', 'kwargs': {'vi': vi}})
        for order in ('declared', 'reversed'):
            out.append({'name': f'guess_convention[{v[0]}, entry points {order}]', 'fn': 'scn_guess', 'kwargs': {'vi': vi, 'order': order}})
    base_variants = [0, 10, 13, 22]       # cf1d, shoc simple, shoc standard, ugrid
    for vi in base_variants:
        for a, b in itertools.product(TOY_SPECS, TOY_SPECS):
            for reg in (('A', 'B'), ('B', 'A')):
                out.append({'name': f'registration[{VARIANTS[vi][0]}, toy A={a}, toy B={b}, registered {reg}]', 'fn': 'scn_registered',
                            'kwargs': {'vi': vi, 'a': a, 'b': b, 'reg': reg}})
    for vi in base_variants:
        for reg in (('A', 'B'), ('B', 'A')):
            out.append({'name': f'registration[{VARIANTS[vi][0]}, toy conventions answering any integer, registered {reg}]', 'fn': 'scn_registered_any',
                        'kwargs': {'vi': vi, 'reg': reg}})
    for reg in (('A', 'B'), ('B', 'A')):
        out.append({'name': f'registration[{VARIANTS[0][0]}, two classes of one factory (same module and qualified name) answering any integer, registered {reg}]',
                    'fn': 'scn_registered_any', 'kwargs': {'vi': 0, 'reg': reg, 'same_name': True}})
    for vi in base_variants + [TIE_VARIANT]:
        for name in ENTRY_ORDER:
            out.append({'name': f'registration of an entry-point class by hand[{VARIANTS[vi][0]}, register {name}]', 'fn': 'scn_register_known',
                        'kwargs': {'vi': vi, 'name': name}})
    ops = ['access', 'bind_new', 'copy', 'access_copy', 'bind_again']
    max_len = 3 if tier == 'quick' else 4
    for n in range(1, max_len + 1):
        for seq in itertools.product(ops, repeat=n):
            out.append({'name': 'history[' + ','.join(seq) + ']', 'fn': 'scn_history', 'kwargs': {'seq': seq}})
    for vi in (13, 7, 10):       # shoc standard, cf2d, shoc simple
        for how in ('ShocStandard', 'ArakawaC'):
            out.append({'name': f'detection does not depend on conventions constructed by hand before[{VARIANTS[vi][0]}, {how}(other dataset, coordinate_names=...)]',
                        'fn': 'scn_constructed_before', 'kwargs': {'vi': vi, 'how': how}})
    out.append({'name': 'write-once: stores to State.convention (AST scan)', 'fn': 'scn_write_once', 'kwargs': {}})
    out.append({'name': 'determinism: no hash/id/time/random in detection code (AST scan)', 'fn': 'scn_taint', 'kwargs': {}})
    out.append({'name': 'accessor refuses undetectable dataset', 'fn': 'scn_refuse', 'kwargs': {}})
    return out


def _dataset(c, vi):
    name, b, kw, mods, expected = VARIANTS[vi]
    ds = BUILDERS[b](c, **kw)
    add_var(ds, 'temp', tuple(list(ds._sizes())[:1]), sym_array(c, 'temp', (list(ds._sizes().values())[0],), 'V'))
    for m in mods:
        m(ds)
    return ds, expected


def _spec_value(v):
    if v is None:
        return None
    return int(v)


class EntryPoint:
    _pyvc_model_class = True

    def __init__(self, name, klass):
        self.name, self.value, self.klass = name, name, klass

    def load(self):
        return self.klass


def _entry_points(it, order='declared'):
    names = ENTRY_ORDER if order == 'declared' else list(reversed(ENTRY_ORDER))
    return [EntryPoint(n, cls(it, *CLASSES[n])) for n in names]


def scn_table(c, vi):
    it = new_interp()
    ds, expected = _dataset(c, vi)
    for cname, (mod, nm) in CLASSES.items():
        klass = cls(it, mod, nm)
        r = expect_ok(c, f'{cname}.check_dataset returns (never raises)', lambda: method(it, klass, 'check_dataset', ds))
        want = expected.get(cname)
        c.check(f'{cname}.check_dataset == {want}', _spec_value(r) == want, note=f'got {r!r}')


def _expected_winner(expected, order, registered=()):
    """highest specificity; ties: registered classes (registration order) before entry points (their order)"""
    names = list(registered) + [n for n in (ENTRY_ORDER if order == 'declared' else list(reversed(ENTRY_ORDER)))]
    best = None
    for n in names:
        s = expected.get(n)
        if s is not None and (best is None or s > best[1]):
            best = (n, s)
    return best[0] if best else None


def scn_guess(c, vi, order):
    it = new_interp()
    ds, expected = _dataset(c, vi)
    c.entry_points = _entry_points(it, order)
    g = fn(it, 'emsarray.conventions._registry', 'get_dataset_convention')
    r = expect_ok(c, 'get_dataset_convention returns', lambda: call(it, g, ds))
    want = _expected_winner(expected, order)
    got = r.name if isinstance(r, ClassInfo) else None
    c.check(f'the matching convention with the highest specificity handles the dataset: {want}', got == want, note=f'got {got}')
    r2 = expect_ok(c, 'second detection returns', lambda: call(it, g, ds))
    c.check('detection is repeatable on the same dataset', r2 is r)


def scn_constructed_before(c, vi, how):
    """Which convention handles a dataset is a function of the dataset alone: a convention object constructed by hand on ANOTHER dataset, with
    its own options (coordinate names other than the defaults), between two detections leaves every check_dataset answer and the winner as
    they were, and the class-level defaults of the entry-point classes are not modified."""
    it = new_interp()
    ds, expected = _dataset(c, vi)
    c.entry_points = _entry_points(it)
    g = fn(it, 'emsarray.conventions._registry', 'get_dataset_convention')
    Kind = cls(it, 'emsarray.conventions.arakawa_c', 'ArakawaCGridKind')
    kinds = {k: it.getattr(Kind, k) for k in ('face', 'left', 'back', 'node')}
    SS = cls(it, *CLASSES['ShocStandard'])
    defaults_before = dict(it.getattr(SS, 'coordinate_names').items())
    before = {cname: _spec_value(method(it, cls(it, mod, nm), 'check_dataset', ds)) for cname, (mod, nm) in CLASSES.items()}
    # another dataset: an Arakawa C grid whose node coordinates have other names
    other = inputs.shoc_standard(c)
    for old_, new_ in (('x_grid', 'x_node'), ('y_grid', 'y_node')):
        v = other._vars.pop(old_)
        was_coord = old_ in other._coord_names
        other._coord_names.discard(old_)
        add_var(other, new_, v.dims, v.arr, dict(v.attrs), coord=was_coord)
    names = {kinds['face']: ('y_centre', 'x_centre'), kinds['left']: ('y_left', 'x_left'), kinds['back']: ('y_back', 'x_back'), kinds['node']: ('y_node', 'x_node')}
    klass = SS if how == 'ShocStandard' else cls(it, 'emsarray.conventions.arakawa_c', 'ArakawaC')
    conv = expect_ok(c, f'{how}(other dataset, coordinate_names=...) constructs', lambda: it.instantiate(klass, [other], {'coordinate_names': names}))
    own = it.getattr(conv, 'coordinate_names')
    c.check('the constructed object uses the names it was given', own[kinds['node']] == ('y_node', 'x_node'))
    c.check('the class-level default names of ShocStandard are not modified by constructing an object',
            dict(it.getattr(SS, 'coordinate_names').items()) == defaults_before)
    for cname, (mod, nm) in CLASSES.items():
        r = expect_ok(c, f'{cname}.check_dataset returns afterwards', lambda: method(it, cls(it, mod, nm), 'check_dataset', ds))
        c.check(f'{cname}.check_dataset gives the same answer as before', _spec_value(r) == before[cname] and before[cname] == expected.get(cname),
                note=f'before {before[cname]}, after {r!r}')
    r = expect_ok(c, 'get_dataset_convention returns afterwards', lambda: call(it, g, ds))
    want = _expected_winner(expected, 'declared')
    c.check(f'the dataset is still handled by {want}', (r.name if isinstance(r, ClassInfo) else None) == want)


def scn_register_known(c, vi, name):
    """a class that is already known through its entry point can still be registered by hand, and then wins ties like any registered class"""
    it = new_interp()
    ds, expected = _dataset(c, vi)
    c.entry_points = _entry_points(it)
    register = fn(it, 'emsarray.conventions._registry', 'register_convention')
    g = fn(it, 'emsarray.conventions._registry', 'get_dataset_convention')
    before = expect_ok(c, 'detection before registration', lambda: call(it, g, ds))
    want0 = _expected_winner(expected, 'declared')
    c.check(f'before: entry-point order decides ties: {want0}', (before.name if isinstance(before, ClassInfo) else None) == want0)
    klass = cls(it, *CLASSES[name])
    r = expect_ok(c, 'register_convention returns the class', lambda: call(it, register, klass))
    c.check('register_convention returns its argument', r is klass)
    after = expect_ok(c, 'detection after registration', lambda: call(it, g, ds))
    want = _expected_winner(expected, 'declared', registered=[name])
    got = after.name if isinstance(after, ClassInfo) else None
    c.check(f'after registering {name} by hand: highest specificity wins, the registered class wins ties: {want}', got == want, note=f'got {got}')


TOY_SRC = '''
class ToyA(Convention):
    @classmethod
    def check_dataset(cls, dataset):
        return TOY['A']

class ToyB(Convention):
    @classmethod
    def check_dataset(cls, dataset):
        return TOY['B']
'''


def scn_registered(c, vi, a, b, reg):
    it = new_interp()
    ds, expected = _dataset(c, vi)
    c.entry_points = _entry_points(it)
    spec = cls(it, 'emsarray.conventions._base', 'Specificity')
    sv = {None: None, LOW: it.getattr(spec, 'LOW'), HIGH: it.getattr(spec, 'HIGH')}
    env = it.run_snippet('emsarray.conventions._base', TOY_SRC, {'TOY': {'A': sv[a], 'B': sv[b]}})
    toys = {'A': env['ToyA'], 'B': env['ToyB']}
    register = fn(it, 'emsarray.conventions._registry', 'register_convention')
    g = fn(it, 'emsarray.conventions._registry', 'get_dataset_convention')
    # detection before registration sees only the entry points
    before = expect_ok(c, 'detection before registration', lambda: call(it, g, ds))
    for k in reg:
        r = expect_ok(c, 'register_convention returns the class', lambda: call(it, register, toys[k]))
        c.check('register_convention returns its argument (usable as a decorator)', r is toys[k])
    after = expect_ok(c, 'detection after registration', lambda: call(it, g, ds))
    exp = dict(expected)
    exp['ToyA'], exp['ToyB'] = a, b
    want = _expected_winner(exp, 'declared', registered=['Toy' + k for k in reg])
    got = after.name if isinstance(after, ClassInfo) else None
    c.check(f'highest specificity wins, a registered convention wins ties, earlier registration wins ties: {want}',
            got == want, note=f'got {got}')
    # registering the same class twice does not change the outcome
    expect_ok(c, 're-registration', lambda: call(it, register, toys[reg[0]]))
    again = expect_ok(c, 'detection after re-registration', lambda: call(it, g, ds))
    c.check('registering a class twice changes nothing', again is after)


TOY_FACTORY_SRC = '''
def make_toy(answer):
    class Toy(Convention):
        @classmethod
        def check_dataset(cls, dataset):
            return answer
    return Toy

ToyA = make_toy(TOY['A'])
ToyB = make_toy(TOY['B'])
'''


def scn_registered_any(c, vi, reg, same_name=False):
    """check_dataset may answer any integer (the Specificity members are only names for three of them): two registered conventions answer
    arbitrary integers a and b; the winner has the highest answer, ties go to registered classes in registration order, then entry points."""
    it = new_interp()
    ds, expected = _dataset(c, vi)
    c.entry_points = _entry_points(it)
    a, b = c.fresh_int('spec_a'), c.fresh_int('spec_b')
    # same_name: the two classes come out of one class factory -- different classes with the same module and qualified name
    env = it.run_snippet('emsarray.conventions._base', TOY_FACTORY_SRC if same_name else TOY_SRC, {'TOY': {'A': a, 'B': b}})
    toys = {'A': env['ToyA'], 'B': env['ToyB']}
    register = fn(it, 'emsarray.conventions._registry', 'register_convention')
    g = fn(it, 'emsarray.conventions._registry', 'get_dataset_convention')
    for k in reg:
        expect_ok(c, 'register_convention returns', lambda: call(it, register, toys[k]))
    got = expect_ok(c, 'detection returns', lambda: call(it, g, ds))
    name = got.name if isinstance(got, ClassInfo) else None
    if same_name:
        name = 'ToyA' if got is toys['A'] else ('ToyB' if got is toys['B'] else name)
    # candidates in tie-break order: registered classes in registration order, then the entry points in their order
    cands = [('Toy' + k, {'A': a, 'B': b}[k]) for k in reg] + [(n, expected[n]) for n in ENTRY_ORDER if expected.get(n) is not None]
    names = [n for n, _ in cands]
    c.check('some convention handles the dataset (both toy conventions match)', name in names)
    if name not in names:
        return
    r = names.index(name)
    sr = zint(cands[r][1])
    goal = []
    for x, (n, sx) in enumerate(cands):
        if x != r:
            goal.append(sr > zint(sx) if x < r else sr >= zint(sx))
    c.check('the winner has the highest answer of all matching conventions, whatever integers they answer; ties go to the earlier one in '
            '(registered in registration order, then entry points) order', mk_bool(z3.And(*goal)) if goal else True, note=f'winner {name}')


def _accessors(c, it):
    ems_accessor = fn(it, 'emsarray.accessors', 'ems_accessor')
    State = cls(it, 'emsarray.state', 'State')
    c.accessor_fns = {'ems': lambda ds: it.call(ems_accessor, [ds], {}),
                      '_emsarray_state': lambda ds: it.instantiate(State, [ds], {})}


def scn_history(c, seq):
    it = new_interp()
    ds = inputs.cf1d(c)
    c.entry_points = _entry_points(it)
    _accessors(c, it)
    CF1 = cls(it, *CLASSES['CFGrid1D'])
    attached = {}          # dataset id -> convention object first attached
    datasets = {'orig': ds}
    copy = None

    def first_attach(key, conv):
        if key not in attached:
            attached[key] = conv

    for step, op in enumerate(seq):
        tag = f'step {step + 1} ({op}): '
        if op == 'access':
            conv = expect_ok(c, tag + 'accessing the accessor returns a convention', lambda: it.getattr(datasets['orig'], 'ems'))
            first_attach('orig', conv)
            c.check(tag + 'every access returns the convention first attached to this dataset', conv is attached['orig'])
            c.check(tag + 'the convention is attached to this very dataset', it.getattr(conv, 'dataset') is datasets['orig'])
        elif op in ('bind_new', 'bind_again'):
            conv = expect_ok(c, tag + 'constructing a convention on the dataset', lambda: it.instantiate(CF1, [datasets['orig']], {}))
            kind, val = outcome(lambda: method(it, conv, 'bind'))
            if 'orig' in attached:
                c.check(tag + 'a second attachment is refused with ValueError', kind == 'raise' and exc_matches(val, ValueError))
            else:
                c.check(tag + 'binding an unbound dataset succeeds', kind == 'return')
                if kind == 'return':
                    first_attach('orig', conv)
        elif op == 'copy':
            copy = datasets['copy'] = datasets['orig'].copy()
            attached.pop('copy', None)
        elif op == 'access_copy':
            if copy is None:
                copy = datasets['copy'] = datasets['orig'].copy()
                attached.pop('copy', None)
            conv = expect_ok(c, tag + 'accessing the accessor of the copy', lambda: it.getattr(datasets['copy'], 'ems'))
            first_attach('copy', conv)
            c.check(tag + 'the copy has its own convention, stable across accesses', conv is attached['copy'])
            c.check(tag + "the copy's convention is attached to the copy", it.getattr(conv, 'dataset') is datasets['copy'])
            if 'orig' in attached:
                c.check(tag + 'copies are independent of the original', conv is not attached['orig'])
    # final: state agrees with what was first attached
    State = cls(it, 'emsarray.state', 'State')
    for key, conv in attached.items():
        st = it.call(it.getattr(State, 'get'), [datasets[key]], {})
        c.check(f'final: the state of {key} still holds the first attached convention', it.getattr(st, 'convention') is conv)
    for key in datasets:
        if key not in attached:
            st = it.call(it.getattr(State, 'get'), [datasets[key]], {})
            c.check(f'final: {key} was never attached and is unbound', it.getattr(st, 'convention') is None)


def scn_refuse(c):
    it = new_interp()
    ds, expected = _dataset(c, [k for k, v in enumerate(VARIANTS) if v[0] == 'nothing recognisable'][0])
    c.entry_points = _entry_points(it)
    _accessors(c, it)
    expect_raise(c, 'a dataset nothing matches is refused with RuntimeError', lambda: it.getattr(ds, 'ems'), RuntimeError)


def scn_write_once(c):
    """The only store to a ``.convention`` attribute is State.bind_convention; its only caller is Convention.bind,
    which refuses when is_bound()."""
    stores, callers = [], []
    for path in glob.glob(os.path.join(SRC_ROOT, 'emsarray', '**', '*.py'), recursive=True):
        tree = ast.parse(open(path).read())
        rel = os.path.relpath(path, SRC_ROOT)
        owner = {}
        for klass in ast.walk(tree):
            if isinstance(klass, ast.ClassDef):
                for f in klass.body:
                    if isinstance(f, ast.FunctionDef):
                        owner[id(f)] = klass.name
        for node in ast.walk(tree):
            if isinstance(node, ast.FunctionDef):
                for sub in ast.walk(node):
                    if isinstance(sub, (ast.Assign, ast.AugAssign, ast.AnnAssign)):
                        tg = sub.targets if isinstance(sub, ast.Assign) else [sub.target]
                        for t in tg:
                            if isinstance(t, ast.Attribute) and t.attr == 'convention':
                                on_self = isinstance(t.value, ast.Name) and t.value.id == 'self'
                                if on_self and owner.get(id(node)) not in (None, 'State'):
                                    continue      # an attribute of some other class that happens to share the name
                                stores.append((rel, node.name))
                    if isinstance(sub, ast.Call) and isinstance(sub.func, ast.Attribute) and sub.func.attr == 'bind_convention':
                        callers.append((rel, node.name))
                    if isinstance(sub, ast.Call) and getattr(sub.func, 'id', '') == 'setattr':
                        if any(isinstance(a, ast.Constant) and a.value == 'convention' for a in sub.args):
                            stores.append((rel, node.name + ':setattr'))
    c.check('the only store to .convention is in State.bind_convention', stores == [('emsarray/state.py', 'bind_convention')], note=str(stores))
    c.check('the only caller of bind_convention is Convention.bind', callers == [('emsarray/conventions/_base.py', 'bind')], note=str(callers))
    # Convention.bind refuses when bound (symbolically: state.is_bound() true => ValueError, no store)
    it = new_interp()
    ds = inputs.cf1d(c)
    c.entry_points = _entry_points(it)
    _accessors(c, it)
    CF1 = cls(it, *CLASSES['CFGrid1D'])
    a = it.instantiate(CF1, [ds], {})
    b = it.instantiate(CF1, [ds], {})
    expect_ok(c, 'first bind succeeds', lambda: method(it, a, 'bind'))
    expect_raise(c, 'second bind is refused with ValueError', lambda: method(it, b, 'bind'), ValueError)
    State = cls(it, 'emsarray.state', 'State')
    st = it.call(it.getattr(State, 'get'), [ds], {})
    c.check('a refused bind leaves the first convention in place', it.getattr(st, 'convention') is a)


TAINT = {'hash', 'id', 'random', 'time', 'uuid', 'getpid', 'environ', 'urandom'}
DETECTION_FILES = ['conventions/_registry.py', 'accessors.py', 'state.py']
DETECTION_FUNCS = {'check_dataset', 'check_validity', 'latitude_name', 'longitude_name', 'mesh_variable', 'latitude', 'longitude'}


def scn_taint(c):
    hits = []
    n = 0
    for path in glob.glob(os.path.join(SRC_ROOT, 'emsarray', '**', '*.py'), recursive=True):
        rel = os.path.relpath(path, os.path.join(SRC_ROOT, 'emsarray'))
        tree = ast.parse(open(path).read())
        for node in ast.walk(tree):
            if isinstance(node, ast.FunctionDef) and (rel in DETECTION_FILES or node.name in DETECTION_FUNCS):
                n += 1
                for sub in ast.walk(node):
                    if isinstance(sub, ast.Call):
                        nm = getattr(sub.func, 'id', None) or getattr(sub.func, 'attr', None)
                        root = sub.func
                        while isinstance(root, ast.Attribute):
                            root = root.value
                        rootn = getattr(root, 'id', None)
                        if nm in TAINT or rootn in ('random', 'time', 'uuid', 'os'):
                            hits.append((rel, node.name, nm))
                    if isinstance(sub, (ast.For, ast.comprehension)):
                        itx = sub.iter
                        if isinstance(itx, ast.Call) and getattr(itx.func, 'id', '') in ('set', 'frozenset'):
                            hits.append((rel, node.name, 'iteration over a set'))
    c.check('detection / binding code calls no hash, id, clock, randomness, environment and iterates no sets', not hits, note=str(hits))
    c.check('the scan covered the detection functions (not vacuous)', n >= 12, note=str(n))


NATIVE = {'': 'detection'}
