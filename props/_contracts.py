"""Re-verification of the callee contracts a property check relies on (contracts/base.py: Convention.polygons / strtree / mask).
Verification is modular: a caller is checked against the callee's contract, not its body -- so a change inside _make_polygons / strtree /
mask is noticed only where that contract is verified.  The polygon contracts are verified by C02 / C06; every check that *uses* them also
re-runs those scenarios (names prefixed "contract"), so that such a change fails the check of the property it breaks as well."""
from __future__ import annotations


def polygon_contract_scenarios():
    from props import C02
    out = []
    for sc in C02.scenarios('quick'):
        if sc['fn'] in ('scn_polygons', 'scn_validity', 'scn_mesh', 'scn_strtree'):
            out.append({'name': 'contract ' + sc['name'], 'fn': 'scn_polygon_contract', 'kwargs': {'which': sc['fn'], 'args': sc['kwargs']}})
    return out


def scn_polygon_contract(c, which, args):
    from props import C02
    return getattr(C02, which)(c, **args)


def lookup_contract_scenarios():
    """Convention.get_index_for_point (contract used by C05's point selection, verified by C04): its scenarios, re-run where it is used"""
    from props import C04
    out = []
    for sc in C04.scenarios('quick'):
        if sc['fn'] in ('scn_lookup', 'scn_select_point'):
            out.append({'name': 'contract ' + sc['name'], 'fn': 'scn_lookup_contract', 'kwargs': {'which': sc['fn'], 'args': sc['kwargs']}})
    return out


def scn_lookup_contract(c, which, args):
    from props import C04
    return getattr(C04, which)(c, **args)


def mesh_mask_contract_scenarios():
    """ugrid.mask_from_face_indexes (the mesh clip mask that C08 / C09 take as given, verified by C07): its scenarios, re-run where it is used"""
    from props import C07
    out = []
    for sc in C07.scenarios('quick'):
        if sc['fn'] == 'scn_mesh_mask':
            out.append({'name': 'contract ' + sc['name'], 'fn': 'scn_mesh_mask_contract', 'kwargs': {'args': sc['kwargs']}})
    return out


def scn_mesh_mask_contract(c, args):
    from props import C07
    return C07.scn_mesh_mask(c, **args)
