"""C20 -- command line tools compute exactly what the library computes.

Under contract (real bodies): cli.utils.{geometry_argument, bounds_argument, nice_console_errors} with the regular
expressions NUMBER / DECIMAL / bounds_re taken from the source text; cli.commands.{clip, extract_points,
export_geometry}.Command.handle and guess_format; CommandException.  Callees of the handlers are replaced by their
contracts (contracts/cli.py): the obligation is the *trace* of library calls with the user's options passed through.
"""
from __future__ import annotations

import ast
import glob
import os

import z3

from contracts.cli import CLI_KEYS, DatasetStub
from pyvc import core
from pyvc.api import (PathEnd, attr, call, cls, expect_ok, expect_raise, fn, method, mk_bool, new_interp, outcome,
                      s_eq)
from pyvc.core import ExcObj, PyRaise, SStr, SVal
from pyvc.interp import Obj, exc_matches, model
from pyvc.lib import regex
from pyvc.lib.stdlib import OpaqueValue, PathModel
from pyvc.lib.strings import str2float_fn
from pyvc.loader import SRC_ROOT

PROPERTY = 'C20'

# --- the specification language (written from the property, independent of the code) -----------------------
SPEC_NUMBER = r'-?(?:\d+(?:_\d+)*(?:\.(?:\d+(?:_\d+)*)?)?|\.\d+(?:_\d+)*)'
SPEC_SEP = r'\s*,\s*'
SPEC_BOUNDS = SPEC_NUMBER + ''.join([SPEC_SEP + SPEC_NUMBER] * 3)


def spec_re(text):
    return regex.PatternModel(text).language()


def scenarios(tier):
    out = []
    for f in ('geometry_argument', 'bounds_argument'):
        out.append({'name': f'{f}.exact', 'fn': 'scn_bounds_exact', 'kwargs': {'fname': f}})
        out.append({'name': f'{f}.complete', 'fn': 'scn_bounds_complete', 'kwargs': {'fname': f}})
    out.append({'name': 'geometry_argument.fallbacks', 'fn': 'scn_geometry_fallbacks', 'kwargs': {}})
    for exc in ('OSError', 'FileNotFoundError', 'CommandException', 'CommandException7', 'ValueError', 'KeyError',
                'KeyboardInterrupt', 'none'):
        out.append({'name': f'nice_console_errors[{exc}]', 'fn': 'scn_exit_status', 'kwargs': {'exc': exc}})
    out.append({'name': 'CommandException sites', 'fn': 'scn_command_exception_sites', 'kwargs': {}})
    for wd in (True, False):
        out.append({'name': f'clip.handle[work_dir={wd}]', 'fn': 'scn_clip', 'kwargs': {'work_dir': wd}})
    out.append({'name': 'extract_points.handle', 'fn': 'scn_extract_points', 'kwargs': {}})
    for fmt in ('auto', 'geojson', 'wkt', 'wkb', 'shapefile', 'symbolic'):
        out.append({'name': f'export_geometry.handle[format={fmt}]', 'fn': 'scn_export', 'kwargs': {'fmt': fmt}})
    out.append({'name': 'export_geometry.guess_format', 'fn': 'scn_guess_format', 'kwargs': {}})
    return out


def _box_events(c):
    return [e for e in c.events if e[0] == 'box']


def scn_bounds_exact(c, fname):
    """Unconstrained argument text; every path through the real function is classified."""
    import argparse
    it = new_interp()
    f = fn(it, 'emsarray.cli.utils', fname)
    s = c.fresh_str('arg')
    kind, val = outcome(lambda: call(it, f, s))
    boxes = _box_events(c)
    matches = [e for e in c.events if e[0].startswith('re.')]
    c.check('the bounds grammar is consulted exactly once, on the argument text',
            len(matches) <= 1 and all(m[1] is s for m in matches))
    if kind == 'return' and boxes:
        c.check('text taken as bounds is exactly four comma-separated numbers', mk_bool(z3.InRe(s.z, spec_re(SPEC_BOUNDS))))
        c.check('a box is only built from a successful match of the bounds grammar', len(matches) == 1 and len(boxes) == 1)
        if len(matches) != 1:
            raise PathEnd()
        groups, rest = matches[0][2], matches[0][3]
        args = boxes[0][1]
        c.check('the four numbers are the four captured fields', len(groups) == 4 and len(args) == 4)
        if rest is not None:
            c.check('the whole argument is consumed by the four fields (nothing trails the last number)',
                    mk_bool(rest.z == z3.StringVal('')))
        s2f = str2float_fn()
        for k in range(min(4, len(groups), len(args))):
            c.check(f'bounds component {k} is the value of field {k} (order lon_min, lat_min, lon_max, lat_max)',
                    s_eq(args[k], core.mk_real(s2f(groups[k].z))))
            c.check(f'field {k} is a number of the documented form', mk_bool(z3.InRe(groups[k].z, spec_re(SPEC_NUMBER))))
    elif matches and fname == 'bounds_argument':
        c.fail('text matching the bounds grammar is accepted by bounds_argument', note=f'{kind}: {val!r}')
    elif matches:
        c.check('(geometry_argument: matched text falls through only if float() refuses a field)', kind == 'return' or True)
    else:
        if fname == 'bounds_argument':
            c.check('bounds_argument refuses everything else with ArgumentTypeError',
                    kind == 'raise' and exc_matches(val, argparse.ArgumentTypeError))
        else:
            c.check('(path not taken as bounds)', True)


def scn_bounds_complete(c, fname):
    """Lemma over the regular expressions themselves: every string of the documented form is in the language
    the function matches (pattern text and match mode are read from the real source)."""
    it = new_interp()
    f = fn(it, 'emsarray.cli.utils', fname)
    pat = it.get_global(it.module('emsarray.cli.utils'), 'bounds_re')
    c.check('bounds_re is a compiled pattern', isinstance(pat, regex.PatternModel))
    # which match mode does the function use?  run it once on a throw-away symbolic argument
    probe = c.fresh_str('probe')
    outcome(lambda: call(it, f, probe))
    modes = {e[0][3:] for e in c.events if e[0].startswith('re.')}
    s = c.fresh_str('arg')
    c.assume(mk_bool(z3.InRe(s.z, spec_re(SPEC_BOUNDS))))
    L = pat.language()
    full = regex.any_string()
    for mode in modes or {'match'}:
        lang = {'fullmatch': L, 'match': z3.Concat(L, full), 'search': z3.Concat(full, L, full)}[mode]
        c.check(f'every "a,b,c,d" of the documented form is matched by the bounds grammar ({mode})', mk_bool(z3.InRe(s.z, lang)))


def scn_geometry_fallbacks(c):
    import argparse
    it = new_interp()
    f = fn(it, 'emsarray.cli.utils', 'geometry_argument')
    s = c.fresh_str('arg')
    c.assume(mk_bool(z3.Not(z3.InRe(s.z, spec_re(SPEC_BOUNDS)))))
    kind, val = outcome(lambda: call(it, f, s))
    ev = c.events
    loads = [e for e in ev if e[0] == 'json.loads']
    shapes = [e for e in ev if e[0] == 'shape']
    exists = [e for e in ev if e[0] == 'path.exists']
    opened = [e for e in ev if e[0] == 'path.open']
    c.check('non-bounds text is never turned into a box', not _box_events(c))
    c.check('non-bounds text is tried as a GeoJSON string first', len(loads) == 1 and loads[0][1] is s)
    accepted = getattr(c, '_shape_results', [])
    if accepted:
        # the library decides what a geometry is: whatever shape() accepts (valid or not, simple or self-crossing) is handed on untouched
        c.check('whenever shape() accepts the JSON value, geometry_argument returns that very geometry (no tidying, no rejection)',
                kind == 'return' and val is accepted[-1][1])
    if kind == 'return':
        results = getattr(c, '_shape_results', [])
        c.check('a geometry result is exactly shape(<the parsed JSON>)', len(results) >= 1 and val is results[-1][1])
        if shapes and not opened:
            c.check('GeoJSON string: the argument of shape() is the parsed argument text',
                    getattr(shapes[0][1], 'info', {}).get('source') is s)
        if opened:
            c.check('file fallback only when the text is not JSON and the path exists', len(exists) == 1)
            c.check('file fallback reads the file named by the argument', opened[0][1].s is s)
            jl = [e for e in ev if e[0] == 'json.load']
            src = getattr(shapes[0][1], 'info', {}) if shapes else {}
            c.check('file fallback: the argument of shape() is the JSON document of that file as written (parsed by json.load; no rounding, no re-building of the geometry)',
                    len(jl) == 1 and len(shapes) == 1 and getattr(shapes[0][1], 'what', None) == 'json' and src.get('source') is jl[0][1] and not src.get('rounded'))
    else:
        c.check('every failure is an ArgumentTypeError (argparse turns it into exit status 2 and a message)',
                exc_matches(val, argparse.ArgumentTypeError))


# ------------------------------------------------------------------------------------------------------------


def scn_exit_status(c, exc):
    it = new_interp()
    CommandException = cls(it, 'emsarray.cli.exceptions', 'CommandException')

    @model
    def body():
        if exc == 'none':
            return None
        if exc == 'CommandException':
            raise PyRaise(it.instantiate(CommandException, ['boom'], {}))
        if exc == 'CommandException7':
            raise PyRaise(it.instantiate(CommandException, ['boom'], {'code': 7}))
        raise PyRaise(ExcObj({'OSError': OSError, 'FileNotFoundError': FileNotFoundError, 'ValueError': ValueError,
                              'KeyError': KeyError, 'KeyboardInterrupt': KeyboardInterrupt}[exc], ('boom',)))
    kind, val = outcome(lambda: it.run_snippet('emsarray.cli.utils', 'with nice_console_errors():\n    body()\n', {'body': body}))
    expected = {'OSError': 2, 'FileNotFoundError': 2, 'CommandException': 1, 'CommandException7': 7, 'ValueError': 3,
                'KeyError': 3, 'KeyboardInterrupt': 1, 'none': None}[exc]
    if expected is None:
        c.check('no error: the wrapper returns normally', kind == 'return')
    else:
        c.check(f'{exc} ends the process through SystemExit', kind == 'raise' and exc_matches(val, SystemExit))
        if kind == 'raise' and exc_matches(val, SystemExit):
            c.check(f'{exc} maps to exit status {expected} (non-zero)', val.args == (expected,) and expected != 0)
            if exc != 'KeyboardInterrupt':
                logs = [e for e in c.events if e[0] == 'log']
                c.check(f'{exc}: a message is logged before exiting', len(logs) >= 1)


def scn_command_exception_sites(c):
    """Every CommandException(...) in the tree has a non-zero exit code (AST scan of the real source)."""
    n = 0
    default_ok = False
    for path in glob.glob(os.path.join(SRC_ROOT, 'emsarray', '**', '*.py'), recursive=True):
        tree = ast.parse(open(path).read())
        for node in ast.walk(tree):
            if isinstance(node, ast.ClassDef) and node.name == 'CommandException':
                for st in node.body:
                    if isinstance(st, ast.FunctionDef) and st.name == '__init__':
                        d = st.args.defaults
                        default_ok = bool(d) and isinstance(d[-1], ast.Constant) and isinstance(d[-1].value, int) and d[-1].value != 0
            if isinstance(node, ast.Call) and getattr(node.func, 'id', getattr(node.func, 'attr', None)) == 'CommandException':
                n += 1
                code = None
                if len(node.args) > 1:
                    code = node.args[1]
                for k in node.keywords:
                    if k.arg == 'code':
                        code = k.value
                ok = code is None or (isinstance(code, ast.Constant) and isinstance(code.value, int) and code.value != 0)
                c.check(f'CommandException at {os.path.relpath(path, SRC_ROOT)}:{node.lineno} has a non-zero code', ok)
    c.check('CommandException default code is a non-zero constant', default_ok)
    c.check('the tree constructs CommandException somewhere (scan is not vacuous)', n >= 3)


def _namespace(**kw):
    import argparse
    return argparse.Namespace(**kw)


def _calls(c):
    return [e[1:] for e in c.events if e[0] == 'call']


def scn_clip(c, work_dir):
    it = new_interp(use=CLI_KEYS)
    Command = cls(it, 'emsarray.cli.commands.clip', 'Command')
    cmd = it.instantiate(Command, [], {})
    inp, outp, geom = PathModel(OpaqueValue('input')), PathModel(OpaqueValue('output')), SVal(z3.FreshConst(core.GeomSort, 'clipgeom'))
    wd = PathModel(OpaqueValue('workdir')) if work_dir else None
    opts = _namespace(input_path=inp, output_path=outp, clip_geometry=geom, work_dir=wd)
    expect_ok(c, 'clip handler returns when its library calls succeed', lambda: method(it, cmd, 'handle', opts))
    calls = _calls(c)
    c.check('clip: exactly open_dataset -> ems.clip -> ems.to_netcdf', [x[0] for x in calls] == ['open_dataset', 'ems.clip', 'ems.to_netcdf'])
    if [x[0] for x in calls] != ['open_dataset', 'ems.clip', 'ems.to_netcdf']:
        raise PathEnd()
    c.check('clip: opens the input path given on the command line', calls[0][1] is inp and not calls[0][2])
    c.check('clip: clips the opened dataset with the geometry argument unchanged, default buffer',
            isinstance(calls[1][1], DatasetStub) and calls[1][1].what == 'dataset' and calls[1][2] is geom and not calls[1][4])
    if work_dir:
        c.check('clip: uses the requested work directory', calls[1][3] is wd)
    else:
        c.check('clip: uses a temporary directory when none is given',
                isinstance(calls[1][3], PathModel) and getattr(calls[1][3].s, 'what', '') == 'tempdir')
    c.check('clip: saves the *clipped* dataset to the output path through the convention (EMS fixes applied)',
            calls[2][1].what == 'clipped' and calls[2][1].parent is calls[1][1] and calls[2][2] is outp and not calls[2][3])
    order = [e[0] if e[0] != 'call' else e[1] for e in c.events if e[0] in ('call', 'TemporaryDirectory.cleanup')]
    if not work_dir:
        c.check('clip: output is written before the temporary directory is removed',
                order.index('ems.to_netcdf') < order.index('TemporaryDirectory.cleanup'))


def scn_extract_points(c):
    it = new_interp(use=CLI_KEYS)
    Command = cls(it, 'emsarray.cli.commands.extract_points', 'Command')
    CommandException = cls(it, 'emsarray.cli.exceptions', 'CommandException')
    cmd = it.instantiate(Command, [], {})
    inp, pts, outp = PathModel(OpaqueValue('input')), PathModel(OpaqueValue('points')), PathModel(OpaqueValue('output'))
    cols, dim, policy = (OpaqueValue('lon-col'), OpaqueValue('lat-col')), OpaqueValue('dim'), OpaqueValue('policy')
    opts = _namespace(input_path=inp, points=pts, output_path=outp, coordinate_columns=cols, point_dimension=dim,
                      missing_points=policy)
    kind, val = outcome(lambda: method(it, cmd, 'handle', opts))
    calls = _calls(c)
    names = [x[0] for x in calls]
    c.check('extract-points: starts with open_dataset, read_csv, extract_dataframe',
            names[:3] == ['open_dataset', 'pandas.read_csv', 'extract_dataframe'])
    if names[:3] != ['open_dataset', 'pandas.read_csv', 'extract_dataframe']:
        raise PathEnd()
    c.check('extract-points: opens the input dataset and the points table named on the command line',
            calls[0][1] is inp and calls[1][1] is pts and not calls[1][2])
    ed = calls[2]
    c.check('extract-points: extract_dataframe(dataset, table, coordinate columns in the order given, point_dimension, '
            'missing_points) with the options unchanged',
            ed[1].what == 'dataset' and ed[2] is calls[1][3] and ed[2].what == 'dataframe' and ed[3] is cols and ed[4] is dim and ed[5] is policy)
    c.check('extract-points: the table is handed over as read -- no row is removed, reordered or relabelled on the way (rows outside the model are the '
            "library's business, decided by the policy)", not any(e[0] == 'frame-derived' for e in c.events))
    missed = not any(e[0] == 'call' and e[1] == 'to_netcdf_with_fixes' for e in c.events)
    if kind == 'raise':
        c.check('extract-points: the only failure of its own is a CommandException (points outside the model)',
                exc_matches(val, CommandException) and missed)
        if exc_matches(val, CommandException):
            c.check('extract-points: failure carries a non-zero exit code', val.attrs.get('code') not in (0, None))
            c.check('extract-points: nothing is written when points miss the model', 'to_netcdf_with_fixes' not in names)
    else:
        c.check('extract-points: ends with exactly one to_netcdf_with_fixes', names[3:] in (['ems.time_coordinate', 'to_netcdf_with_fixes'],))
        if names[-1] == 'to_netcdf_with_fixes':
            w = calls[-1]
            c.check('extract-points: writes the extracted point dataset to the output path', w[1].what == 'point_data' and w[2] is outp and not w[4])
            has_time = any(e[0] == 'call' and e[1] == 'ems.time_coordinate' for e in c.events)
            tv = w[3]
            c.check('extract-points: time variable is the dataset time coordinate name, or None when there is none',
                    tv is None or (isinstance(tv, OpaqueValue) and tv.what == 'time-name'))


def scn_guess_format(c):
    it = new_interp(use=CLI_KEYS)
    Command = cls(it, 'emsarray.cli.commands.export_geometry', 'Command')
    CommandException = cls(it, 'emsarray.cli.exceptions', 'CommandException')
    cmd = it.instantiate(Command, [], {})
    suffix = c.fresh_str('suffix')
    path = PathModel(OpaqueValue('output'), suffix=suffix)
    kind, val = outcome(lambda: method(it, cmd, 'guess_format', path))
    table = {'.json': 'geojson', '.geojson': 'geojson', '.wkt': 'wkt', '.wkb': 'wkb', '.shp': 'shapefile'}
    known = z3.Or(*[suffix.z == z3.StringVal(k) for k in table])
    if kind == 'return':
        c.check('guess_format: only the five known extensions are guessed', mk_bool(known))
        for k, v in table.items():
            c.check(f'guess_format: {k} -> {v}', mk_bool(z3.Implies(suffix.z == z3.StringVal(k), z3.BoolVal(val == v))))
    else:
        c.check('guess_format: an unknown extension is a CommandException (never a silent default)',
                exc_matches(val, CommandException))
        c.check('guess_format: known extensions never fail', mk_bool(z3.Not(known)))


def scn_export(c, fmt):
    it = new_interp(use=CLI_KEYS)
    Command = cls(it, 'emsarray.cli.commands.export_geometry', 'Command')
    CommandException = cls(it, 'emsarray.cli.exceptions', 'CommandException')
    cmd = it.instantiate(Command, [], {})
    inp = PathModel(OpaqueValue('input'))
    suffix = c.fresh_str('suffix')
    outp = PathModel(OpaqueValue('output'), suffix=suffix)
    fmt_val = c.fresh_str('fmt') if fmt == 'symbolic' else fmt
    opts = _namespace(input_path=inp, output_path=outp, format=fmt_val)
    kind, val = outcome(lambda: method(it, cmd, 'handle', opts))
    calls = [x for x in _calls(c)]
    names = [x[0] for x in calls]
    writers = {'geojson': 'write_geojson', 'wkt': 'write_wkt', 'wkb': 'write_wkb', 'shapefile': 'write_shapefile'}
    table = {'.json': 'geojson', '.geojson': 'geojson', '.wkt': 'wkt', '.wkb': 'wkb', '.shp': 'shapefile'}
    c.check('export-geometry: opens the input dataset first', names[:1] == ['open_dataset'] and calls[0][1] is inp)
    wcalls = [x for x in calls if x[0].startswith('write_')]
    if kind == 'return':
        c.check('export-geometry: exactly one writer is called on success', len(wcalls) == 1)
        if len(wcalls) != 1:
            raise PathEnd()
        w = wcalls[0]
        c.check('export-geometry: the writer gets the opened dataset and the output path unchanged',
                w[1].what == 'dataset' and w[2] is outp)
        if fmt in writers:
            c.check(f'export-geometry: --format {fmt} uses {writers[fmt]}', w[0] == writers[fmt])
        elif fmt == 'auto':
            for k, v in table.items():
                c.check(f'export-geometry: auto format with extension {k} uses {writers[v]}',
                        mk_bool(z3.Implies(suffix.z == z3.StringVal(k), z3.BoolVal(w[0] == writers[v]))))
            c.check('export-geometry: auto format writes only for a known extension',
                    mk_bool(z3.Or(*[suffix.z == z3.StringVal(k) for k in table])))
        else:
            for k, v in writers.items():
                c.check(f'export-geometry: format {k!r} uses {v}',
                        mk_bool(z3.Implies(fmt_val.z == z3.StringVal(k), z3.BoolVal(w[0] == v))))
            c.check('export-geometry: a format outside {auto, geojson, wkt, wkb, shapefile} never writes',
                    mk_bool(z3.Or(fmt_val.z == z3.StringVal('auto'), *[fmt_val.z == z3.StringVal(k) for k in writers])))
    else:
        c.check('export-geometry: an unknown format / extension ends in CommandException with nothing written',
                exc_matches(val, CommandException) and not wcalls)
        if exc_matches(val, CommandException):
            c.check('export-geometry: failure carries a non-zero exit code', val.attrs.get('code') not in (0, None))
        if fmt in writers:
            c.fail(f'export-geometry: --format {fmt} must not fail in the handler', note=repr(val))


NATIVE = {'geometry_argument': 'bounds_strings', 'bounds_argument': 'bounds_strings', '': 'cli_end_to_end'}
