"""C17 -- saving with the EMS fixes preserves data, geometry and time instants.

Under contract (real bodies): utils.format_time_units_for_ems, fix_time_units_for_ems, to_netcdf_with_fixes,
disable_default_fill_value, _get_variables, data_array_to_name; Convention.to_netcdf / time_coordinate.
The time-units formatter is proved for *every* UTC offset T in [-720, 840] minutes and every civil epoch:
form (regex over the constructed string), denotation (re-parsing the constructed string with the CF grammar gives
the same fields and the same offset, hence the same instant) and absence of exceptions.
"""
from __future__ import annotations

import z3

from contracts import inputs
from pyvc import core
from pyvc.api import (PathEnd, XDataset, add_var, attr, call, cls, expect_ok, fn, method, mk_bool, new_interp,
                      outcome, s_and, s_eq, sym_array, sym_size, zint)
from pyvc.core import SStr
from pyvc.interp import exc_matches
from pyvc.lib import numpy_ as np
from pyvc.lib import regex, timelib
from pyvc.lib.stdlib import OpaqueValue
from pyvc.lib.timelib import UnitsIn

PROPERTY = 'C17'

FORM_TAIL = r'\d{4}-\d{2}-\d{2} \d{2}:\d{2}:\d{2} [+-]\d{2}:\d{2}'
# the offset ranges are split so each scenario has few digit-count cases
OFFSET_RANGES = [(-720, -600), (-599, -60), (-59, -1), (0, 0), (1, 59), (60, 599), (600, 840)]
YEAR_RANGES = [(1000, 9999), (100, 999), (10, 99), (1, 9)]


def scenarios(tier):
    out = []
    for lo, hi in OFFSET_RANGES:
        for ylo, yhi in YEAR_RANGES:
            out.append({'name': f'format_time_units_for_ems[offset {lo}..{hi} min, year {ylo}..{yhi}]',
                        'fn': 'scn_format', 'kwargs': {'lo': lo, 'hi': hi, 'ylo': ylo, 'yhi': yhi}})
    out.append({'name': 'fix_time_units_for_ems', 'fn': 'scn_fix_units', 'kwargs': {}})
    for kind in ('f', 'i', 'b', 'M', 'm', 'O'):
        for where in ('none', 'attrs', 'encoding', 'encoding-none', 'attrs-zero', 'encoding-zero'):
            out.append({'name': f'disable_default_fill_value[dtype kind {kind}, _FillValue in {where}]',
                        'fn': 'scn_fill_decision', 'kwargs': {'kind': kind, 'where': where}})
    for tv in ('none', 'name', 'array'):
        out.append({'name': f'to_netcdf_with_fixes[time_variable={tv}]', 'fn': 'scn_to_netcdf_with_fixes', 'kwargs': {'tv': tv}})
    for has_time in (True, False):
        out.append({'name': f'Convention.to_netcdf[time coordinate={has_time}]', 'fn': 'scn_convention_to_netcdf',
                    'kwargs': {'has_time': has_time}})
    for td, kw in (('INT32', False), ('INT64', True), ('FLOAT64', True)):
        out.append({'name': f'Convention.to_netcdf[time stored as {td}, caller keywords={kw}]', 'fn': 'scn_convention_to_netcdf',
                    'kwargs': {'has_time': True, 'time_dtype': td, 'caller_kw': kw}})
    out.append({'name': 'Convention.time_coordinate', 'fn': 'scn_time_coordinate', 'kwargs': {}})
    return out


def _units(c, lo, hi, ylo=1, yhi=9999):
    period = c.fresh_str('period')      # any unit word; it is only copied
    names = ['Y', 'M', 'D', 'h', 'm', 's']
    rng = [(ylo, yhi), (1, 12), (1, 31), (0, 23), (0, 59), (0, 59)]
    fields = []
    for n, (a, b) in zip(names, rng):
        v = c.fresh_int(n)
        c.assume(v >= a)
        c.assume(v <= b)
        fields.append(v)
    T = c.fresh_int('T')
    c.assume(T >= lo)
    c.assume(T <= hi)
    return UnitsIn(period, fields, T), period, fields, T


def scn_format(c, lo, hi, ylo, yhi):
    it = new_interp()
    f = fn(it, 'emsarray.utils', 'format_time_units_for_ems')
    units, period, fields, T = _units(c, lo, hi, ylo, yhi)
    res = expect_ok(c, 'format_time_units_for_ems returns for every offset and epoch (never raises)',
                    lambda: call(it, f, units, 'proleptic_gregorian'))
    c.check('the result is a string', isinstance(res, SStr))
    if not isinstance(res, SStr):
        raise PathEnd()
    head, tail = timelib.split_units(res)
    text, atoms = timelib.skeleton(tail)          # digit runs have a concrete length on each path
    import re
    c.check("form: '<unit> since YYYY-MM-DD HH:MM:SS <sign>HH:MM'", re.fullmatch(FORM_TAIL, text) is not None,
            note=f'shape of the produced text: {text!r} (1 = a digit)')
    c.check('the period word is kept', len(head) == 1 and head[0][0] == 'str' and head[0][1] is period)
    got_fields, got_off = timelib.parse_date_parts(tail)
    for n, a, b in zip('YMDhms', got_fields, fields):
        c.check(f'the rewritten epoch has the same civil field {n} (read back with the CF grammar)', s_eq(a, b))
    c.check('the rewritten offset denotes the same UTC offset (read back with the CF grammar)', s_eq(got_off, T))


def scn_fix_units(c):
    it = new_interp()
    f = fn(it, 'emsarray.utils', 'fix_time_units_for_ems')
    fmt_key = ('emsarray.utils', 'format_time_units_for_ems')
    units, period, fields, T = _units(c, 600, 600, 1990, 1990)
    other = OpaqueValue('other-units')
    files = {'file.nc': {
        't': timelib.NcVariable('t', {'units': units, 'calendar': 'proleptic_gregorian', 'long_name': 'time'}),
        'temp': timelib.NcVariable('temp', {'units': other}),
    }}
    c.nc_files = files
    expect_ok(c, 'fix_time_units_for_ems returns', lambda: call(it, f, 'file.nc', 't'))
    ev = c.events
    opens = [e for e in ev if e[0] == 'nc.open']
    sets = [e for e in ev if e[0] == 'nc.setncattr']
    c.check('the saved file is opened for in-place update', len(opens) == 1 and opens[0][1] == 'file.nc' and opens[0][2] == 'r+')
    c.check("exactly one attribute is rewritten: 'units' of the named time variable", len(sets) == 1 and sets[0][1] == 't' and sets[0][2] == 'units')
    c.check('no other variable is touched', files['file.nc']['temp'].attrs == {'units': other})
    c.check('other attributes of the time variable are kept',
            files['file.nc']['t'].attrs.get('calendar') == 'proleptic_gregorian' and files['file.nc']['t'].attrs.get('long_name') == 'time')
    new = files['file.nc']['t'].attrs['units']
    c.check('the new units are a string built by the formatter', isinstance(new, SStr))
    if isinstance(new, SStr):
        head, tail = timelib.split_units(new)
        gf, go = timelib.parse_date_parts(tail)
        c.check('the rewritten units denote the same reference instant', s_and(s_eq(go, T), *[s_eq(a, b) for a, b in zip(gf, fields)]))
    c.check('changes are flushed', any(e[0] == 'nc.sync' for e in ev))


DT = {'f': np.FLOAT64, 'i': np.INT32, 'b': np.BOOL, 'M': np.DATETIME, 'm': np.TIMEDELTA, 'O': np.OBJECT}
PROMOTES_TO_SELF = {'f': True, 'i': False, 'b': False, 'M': True, 'm': True, 'O': True}


def _var_ds(c, kind, where):
    ds = XDataset(attrs={'title': 'x'})
    n = sym_size(c, 'n')
    attrs, enc = {'long_name': 'v'}, {'dtype': 'keep'}
    fv = OpaqueValue('fill')
    if where.endswith('-zero'):
        fv = 0          # a fill value that is falsy
    if where.startswith('attrs'):
        attrs['_FillValue'] = fv
    elif where in ('encoding', 'encoding-zero'):
        enc['_FillValue'] = fv
    elif where == 'encoding-none':
        enc['_FillValue'] = None
    add_var(ds, 'v', ('x',), np.NDArray((n,), sym_array(c, 'vv', (n,), 'V').fn, DT[kind]), attrs, enc)
    return ds, fv


def scn_fill_decision(c, kind, where):
    it = new_interp()
    f = fn(it, 'emsarray.utils', 'disable_default_fill_value')
    ds, fv = _var_ds(c, kind, where)
    before_attrs = dict(ds._vars['v'].attrs)
    before_enc = dict(ds._vars['v'].encoding)
    expect_ok(c, 'disable_default_fill_value returns', lambda: call(it, f, ds))
    v = ds._vars['v']
    c.check('attributes are never touched', v.attrs == before_attrs)
    suppress = PROMOTES_TO_SELF[kind] and where == 'none'
    if suppress:
        c.check('a variable that could get an automatic fill value and has none gets _FillValue: None (no new attribute in the file)',
                '_FillValue' in v.encoding and v.encoding['_FillValue'] is None)
    else:
        c.check('an existing fill value (attrs or encoding) / a dtype xarray never fills is left exactly as it was',
                v.encoding == before_enc)
    c.check('nothing but the _FillValue encoding entry changes',
            {k: x for k, x in v.encoding.items() if k != '_FillValue'} == {k: x for k, x in before_enc.items() if k != '_FillValue'})
    # the same on a single DataArray
    da = ds._da('v')
    ds2, _ = _var_ds(c, kind, where)
    da2 = ds2._da('v')
    before_enc2 = dict(ds2._vars['v'].encoding)
    expect_ok(c, 'disable_default_fill_value(DataArray) returns', lambda: call(it, f, da2))
    if suppress:
        c.check('DataArray: _FillValue None set', da2.encoding.get('_FillValue', 'absent') is None)
    else:
        c.check('DataArray: encoding untouched', da2.encoding == before_enc2)


def scn_to_netcdf_with_fixes(c, tv):
    it = new_interp()
    f = fn(it, 'emsarray.utils', 'to_netcdf_with_fixes')
    ds = XDataset(attrs={'title': 'x'})
    n = sym_size(c, 'n')
    add_var(ds, 'a', ('x',), np.NDArray((n,), sym_array(c, 'av', (n,), 'V').fn, np.FLOAT64), {'units': 'm'}, {'dtype': 'f4'})
    add_var(ds, 'b', ('x',), np.NDArray((n,), sym_array(c, 'bv', (n,), 'V').fn, np.INT32), {}, {})
    add_var(ds, 'c', ('x',), np.NDArray((n,), sym_array(c, 'cv', (n,), 'V').fn, np.FLOAT64), {'_FillValue': OpaqueValue('fv')}, {})
    add_var(ds, 't', ('t',), np.NDArray((sym_size(c, 'nt'),), sym_array(c, 'tv', (1,), 'V').fn, np.DATETIME), {},
            {'units': OpaqueValue('units'), 'calendar': 'proleptic_gregorian'}, coord=True)
    snap = {k: (dict(v.attrs), dict(v.encoding), v.arr) for k, v in ds._vars.items()}
    path = OpaqueValue('out.nc')
    units, period, fields, T = _units(c, 600, 600, 1990, 1990)
    c.nc_files = {'out.nc': {'t': timelib.NcVariable('t', {'units': units, 'calendar': 'standard'})}}
    kwargs = {}
    if tv == 'name':
        kwargs['time_variable'] = 't'
    elif tv == 'array':
        kwargs['time_variable'] = ds._da('t')
    expect_ok(c, 'to_netcdf_with_fixes returns', lambda: call(it, f, ds, path, **kwargs))
    writes = [e for e in c.events if e[0] == 'to_netcdf']
    c.check('the dataset is written exactly once, to the requested path', len(writes) == 1 and writes[0][3] is path and not writes[0][4])
    if len(writes) != 1:
        raise PathEnd()
    written = writes[0][2]
    c.check('what is written is a copy, not the caller\'s dataset object', written is not ds)
    c.check('the written copy has the same variables, in order', list(written._vars) == list(ds._vars))
    for k, v in ds._vars.items():
        a, e, arr = snap[k]
        c.check(f"caller's variable {k!r}: attributes not modified", v.attrs == a)
        c.check(f"caller's variable {k!r}: encoding not modified (the _FillValue suppression lands in the copy)", v.encoding == e)
        w = written._vars[k]
        c.check(f'written variable {k!r} carries the same data buffer and attributes', w.arr is arr and w.attrs == a)
    c.check("written 'a' (float, no fill) has _FillValue suppressed", written._vars['a'].encoding.get('_FillValue', 'absent') is None)
    c.check("written 'b' (int) gets no _FillValue entry", '_FillValue' not in written._vars['b'].encoding)
    c.check("written 'c' (fill in attrs) keeps it and gets no override", '_FillValue' not in written._vars['c'].encoding)
    c.check("written 't' (datetime, no fill) has _FillValue suppressed", written._vars['t'].encoding.get('_FillValue', 'absent') is None)
    c.check('global attributes written unchanged', written.attrs == ds.attrs)
    sets = [e for e in c.events if e[0] == 'nc.setncattr']
    order = [e[0] for e in c.events if e[0] in ('to_netcdf', 'nc.open')]
    if tv == 'none':
        c.check('without a time variable the file is not rewritten', not sets and 'nc.open' not in order)
    else:
        c.check('with a time variable its units are fixed in the file, after writing',
                order == ['to_netcdf', 'nc.open'] and len(sets) == 1 and sets[0][1] == 't' and sets[0][2] == 'units')


def scn_convention_to_netcdf(c, has_time, time_dtype=None, caller_kw=False):
    fixes_key = ('emsarray.utils', 'to_netcdf_with_fixes')
    from contracts.cli import CONTRACTS
    it = new_interp(use=[fixes_key])
    extra = []
    ds, conv = inputs.make_convention(it, c, 'CFGrid1D', extra=[('temp', ('time', 'lat', 'lon'))])
    if has_time:
        enc = {'units': 'days since 1990-01-01', 'calendar': 'standard'}
        if time_dtype is not None:
            enc['dtype'] = getattr(np, time_dtype)           # how the time axis is stored in the source file (integers are common)
        add_var(ds, 'time', ('time',), np.NDArray((ds._sizes()['time'],), sym_array(c, 'tv', (1,), 'V').fn, np.DATETIME), {}, enc, coord=True)
    path = OpaqueValue('out.nc')
    kw = {'engine': OpaqueValue('engine'), 'unlimited_dims': OpaqueValue('dims')} if caller_kw else {}
    expect_ok(c, 'Convention.to_netcdf returns', lambda: method(it, conv, 'to_netcdf', path, **kw))
    calls = [e for e in c.events if e[0] == 'call' and e[1] == 'to_netcdf_with_fixes']
    c.check('exactly one to_netcdf_with_fixes call with this dataset and path', len(calls) == 1 and calls[0][2] is ds and calls[0][3] is path)
    if len(calls) == 1:
        passed = calls[0][5] or {}
        c.check("the caller's keyword arguments are handed on as they are and nothing is added (an encoding entry would replace the source's units, "
                'calendar and fill-value settings of that variable)', set(passed) == set(kw) and all(passed[k] is kw[k] for k in kw))
        tvar = calls[0][4]
        if has_time:
            c.check('the time coordinate is passed so that its units are fixed', tvar is not None and getattr(tvar, 'name', None) == 'time')
        else:
            c.check('no time coordinate: time_variable is None (saving still works)', tvar is None)


def scn_time_coordinate(c):
    it = new_interp()
    ds, conv = inputs.make_convention(it, c, 'CFGrid1D', extra=[('temp', ('time', 'lat', 'lon'))])
    nt = ds._sizes()['time']
    # a numeric variable with 'since' units that was NOT decoded (not datetime64) must not be picked
    add_var(ds, 'elapsed', ('time',), np.NDArray((nt,), sym_array(c, 'ev', (1,), 'V').fn, np.FLOAT64), {}, {'units': 'seconds since 2000-01-01'})
    add_var(ds, 'time', ('time',), np.NDArray((nt,), sym_array(c, 'tv', (1,), 'V').fn, np.DATETIME), {}, {'units': 'days since 1990-01-01'}, coord=True)
    add_var(ds, 'stamp', ('time',), np.NDArray((nt,), sym_array(c, 'sv', (1,), 'V').fn, np.DATETIME), {}, {'units': 'metres'})
    tc = expect_ok(c, 'time_coordinate is found', lambda: attr(it, conv, 'time_coordinate'))
    c.check("time coordinate = first variable with decoded datetime64 values and '... since ...' units", tc.name == 'time')
    # whatever its shape: a snapshot (dataset.isel(time=0)) keeps a scalar time coordinate; bounds-like 2-d times qualify as well
    for shape_name, dims in (('scalar (a snapshot)', ()), ('two-dimensional', ('time', 'nv'))):
        it2 = new_interp()
        ds2, conv2 = inputs.make_convention(it2, c, 'CFGrid1D', extra=[('temp', ('lat', 'lon'))])
        shp = tuple({'time': sym_size(c, 'nt2', 1), 'nv': 2}[d] for d in dims)
        add_var(ds2, 'time', dims, np.NDArray(shp, (lambda i, a=sym_array(c, 'tv2', (1,), 'V'): a.fn((0,))), np.DATETIME),
                {}, {'units': 'days since 1990-01-01T00:00:00+10:00'}, coord=True)
        tc2 = expect_ok(c, f'time_coordinate is found when the time variable is {shape_name}', lambda: attr(it2, conv2, 'time_coordinate'))
        c.check(f'a {shape_name} time variable is the time coordinate (its units are then fixed on saving)', tc2.name == 'time')


NATIVE = {'format_time_units': 'format_units', '': 'save_roundtrip'}
