"""C09 -- clipped and subsetted datasets remain valid datasets with unchanged geometry.

Functions under contract (real bodies): UGrid.apply_clip_mask, update_connectivity, _masked_integer_data_array, _get_start_index,
Mesh2DTopology accessors; masking.mask_grid_dataset (geometry variables are masked like data: a selected cell keeps all its bounds);
Convention.select_variables, get_all_geometry_names (CFGrid, ArakawaC, UGrid), utils.data_array_to_name, check_dataset of every convention
on the clipped result.
Specification (meshes).  The mask keeps a set of faces / edges / nodes; new index = rank among the kept ones (VALID-UGRID-MASK, produced by
make_clip_mask: C07).  For every connectivity table T present in the input (abstract rows of entries, any encoding): the output has T with
the same dimension order, start_index and integer storage type; row k of the output is row sel(k) of the input; an entry is present iff it
was present and the element it names survives, and then it is the NEW index of that element (+ start_index).
Polygons are a function of the geometry variables only (contracts of C02 / C06), so identical geometry variables give identical polygons.
"""
from __future__ import annotations

import z3

from contracts import inputs
from props import C08
from props._contracts import scn_mesh_mask_contract  # noqa: F401
from props.C10 import Table
from pyvc import core
from pyvc.api import (FIN, PathEnd, SFloat, Variable, XDataArray, XDataset, add_var, call, cls, expect_ok, expect_raise, fn, method,
                      mk_bool, mk_int, new_interp, outcome, s_and, s_eq, s_implies, s_ite, s_not, s_or, sym_array, sym_size, zint)

PROPERTY = 'C09'


def scenarios(tier):
    out = []
    for fill, si in (('int_fill', 1), ('nan', 0), ('none', 1), ('int_fill', 0)):
        for edges in ('none', 'both'):
            if fill == 'nan' and edges == 'both' and tier == 'quick':
                continue            # NaN-encoded tables multiply the paths (thorough tier)
            out.append({'name': f'clipped mesh: face_node / edge_node renumbered[{fill}, start_index={si}, edges={edges}]', 'fn': 'scn_mesh_tables',
                        'kwargs': {'fill': fill, 'si': si, 'edges': edges}})
    for table in ('face_edge', 'edge_face', 'face_face'):
        for si in (0, 1):
            out.append({'name': f'clipped mesh: {table} renumbered[start_index={si}]', 'fn': 'scn_optional_table', 'kwargs': {'table': table, 'si': si}})
    out.append({'name': 'clipped mesh: face_face renumbered[start_index=1, mesh without any edge information]', 'fn': 'scn_optional_table',
                'kwargs': {'table': 'face_face', 'si': 1, 'edges': False}})
    for ci, cfg in enumerate(C08.GRID_CONFIGS):
        out.append({'name': f'clipped grid keeps the geometry of selected cells[{cfg[0]}]', 'fn': 'scn_grid_geometry', 'kwargs': {'ci': ci}})
    for conv, kw in (('CFGrid1D', {}), ('CFGrid1D', {'bounds': True}), ('CFGrid1D', {'bounds': 'coords'}), ('CFGrid2D', {'bounds': True}), ('CFGrid2D', {'bounds': 'coords'}),
                     ('CFGrid2D', {'as_coords': False}), ('ShocStandard', {}), ('UGrid', {'edges': 'both'}), ('UGrid', {'edges': 'edge_node'}),
                     ('UGrid', {'edges': 'none', 'face_coords': True, 'coords_as': 'coords'}), ('UGrid', {'edges': 'both', 'tables': ('face_edge', 'edge_face', 'face_face'), 'edge_coords': True})):
        out.append({'name': f'select_variables keeps the geometry[{conv} {kw}]', 'fn': 'scn_select', 'kwargs': {'conv': conv, 'kw': kw}})
    from props._contracts import mesh_mask_contract_scenarios
    out += mesh_mask_contract_scenarios()        # the mesh clip mask the scenarios above take as given (verified by C07), re-verified here
    return out


def scn_mesh_tables(c, fill, si, edges):
    out = C08.scn_mesh_data(c, edges, fill=fill, si=si)
    UGrid = None
    it = new_interp()
    check = expect_ok(c, 'check_dataset on the clipped dataset', lambda: call(it, core_attr(it, 'emsarray.conventions.ugrid', 'UGrid', 'check_dataset'), out))
    c.check('the clipped dataset is still recognised as UGRID', check is not None)


def core_attr(it, mod, klass, name):
    return it.getattr(cls(it, mod, klass), name)


def scn_optional_table(c, table, si, edges=True):
    """face_edge / edge_face / face_face: rows of kept faces / edges, entries renumbered, entries naming a dropped element become missing"""
    from pyvc.lib.stdlib import OpaqueValue, PathModel
    it = new_interp(use=[])
    # the face-node table of this dataset uses the OTHER index base than the table under test: each table has its own
    ds = inputs.ugrid_mesh(c, fill='int_fill', start_index=1 - si, edges='both' if edges else 'none', tables=(table,))
    info = ds.info
    rowkind, colkind = table.split('_')
    rowdim, width = ('nface', info['maxn']) if rowkind == 'face' else ('nedge', 2)
    nrows = info['n' + rowkind]
    upper = info['n' + colkind]
    t = Table(c, table, nrows, width, 'int_fill', si, False, rowdim, 'maxn' if rowkind == 'face' else 'Two', upper)
    ds._vars[table] = t.variable
    if edges:
        en = Table(c, 'edge_node', info['nedge'], 2, 'none', si, False, 'nedge', 'Two', info['nnode'])
        ds._vars['edge_node'] = en.variable
    conv = it.instantiate(cls(it, 'emsarray.conventions.ugrid', 'UGrid'), [ds], {})
    mask, sels, fillv = C08._mesh_mask(c, ds, edges)
    for n_ in (info['nnode'], info['nface']) + ((info['nedge'],) if edges else ()):
        c.assume(n_ < fillv - 1)
    keep = {k: v[0] for k, v in sels.items()}
    selR, selC = sels[rowkind][1], sels[colkind][1]
    k, j = c.fresh_int('krow'), c.fresh_int('jcol')
    for q, n_ in ((k, selR.count), (j, width)):
        c.assume(q >= 0)
        c.assume(q < n_)
    r_old = selR.sel(k)
    val = t.val(r_old, j)
    present = mk_bool(zint(j) < zint(t.cnt(r_old)))
    if table == 'face_edge':
        c.assume(z3.Implies(present.z, keep['edge'](zint(val))))        # VALID-UGRID-MASK: the edges of a kept face are kept
    work = PathModel(OpaqueValue('work_dir'))
    out = expect_ok(c, 'apply_clip_mask returns', lambda: method(it, conv, 'apply_clip_mask', mask, work))
    vo = out._vars.get(table)
    c.check(f'{table} is present in the clipped dataset', vo is not None)
    if vo is None:
        raise PathEnd()
    vi = t.variable
    c.check(f'{table}: dimension order kept', vo.dims == vi.dims)
    c.check(f'{table}: start_index kept', vo.attrs.get('start_index') == vi.attrs.get('start_index'))
    c.check(f'{table}: saved as an integer table with a fill value', getattr(vo.encoding.get('dtype'), 'kind', None) == 'i' and vo.encoding.get('_FillValue') is not None and '_FillValue' not in vo.attrs)
    c.check(f'{table}: one row per kept {rowkind}', s_eq(vo.arr.shape[0], selR.count))
    got = vo.arr.fn((k, j))
    c.check(f'{table}: entries are renumbered indexes with missing entries (the masked-integer representation), not the raw old numbers', isinstance(got, SFloat))
    if not isinstance(got, SFloat):
        raise PathEnd()
    survives = mk_bool(keep[colkind](zint(val)))
    c.check(f'{table}: an entry is present exactly when row sel(k) has it and the {colkind} it names survives', s_eq(s_not(got.is_nan()), s_and(present, survives)))
    c.check(f'{table}: a present entry is the NEW index of that {colkind} (+ start_index): it refers to a surviving element under the new numbering',
            s_implies(s_and(present, survives), s_and(got.is_fin(), s_eq(got.val, selC.rank(val) + si), mk_bool(zint(selC.rank(val)) < zint(selC.count)))))


def scn_grid_geometry(c, ci):
    out = C08.scn_grid_dataset(c, ci)
    conv_name = C08.GRID_CONFIGS[ci][0]
    it = new_interp()
    mod = {'CFGrid1D': 'emsarray.conventions.grid', 'CFGrid2D': 'emsarray.conventions.grid', 'ShocStandard': 'emsarray.conventions.shoc'}[conv_name]
    check = expect_ok(c, 'check_dataset on the clipped dataset', lambda: call(it, core_attr(it, mod, conv_name, 'check_dataset'), out))
    c.check(f'the clipped dataset is still recognised as {conv_name}', check is not None)


def scn_select(c, conv, kw):
    it = new_interp()
    extra = {'CFGrid1D': [('temp', ('t', 'lat', 'lon'), 'floatnan'), ('salt', ('lat', 'lon'), 'floatnan')],
             'CFGrid2D': [('temp', ('t', 'j', 'i'), 'floatnan'), ('salt', ('j', 'i'), 'floatnan')],
             'ShocStandard': [('temp', ('t', 'j_centre', 'i_centre'), 'floatnan'), ('salt', ('j_node', 'i_node'), 'floatnan')],
             'UGrid': [('temp', ('t', 'nface'), 'floatnan'), ('salt', ('nnode',), 'floatnan')]}[conv]
    ds, cv = inputs.make_convention(it, c, conv, extra=extra, **kw)
    names = expect_ok(c, 'get_all_geometry_names', lambda: method(it, cv, 'get_all_geometry_names'))
    want = {'CFGrid1D': {'lat', 'lon'}, 'CFGrid2D': {'lat', 'lon'}, 'ShocStandard': {'x_centre', 'y_centre', 'x_left', 'y_left', 'x_back', 'y_back', 'x_grid', 'y_grid'},
            'UGrid': {'mesh', 'face_node', 'node_x', 'node_y'}}[conv]
    if kw.get('bounds'):
        want |= {'lat_bnds', 'lon_bnds'}
    if conv == 'UGrid':
        for tname in ('edge_node', 'face_edge', 'edge_face', 'face_face', 'edge_x', 'edge_y', 'face_x', 'face_y'):
            if tname in ds._vars:
                want.add(tname)
    c.check('the geometry inventory is every variable the polygons / topology are computed from', set(names) == want and len(names) == len(set(names)))
    for keep in ([], ['temp'], ['temp', 'salt']):
        sub = expect_ok(c, f'select_variables({keep})', lambda: method(it, cv, 'select_variables', list(keep)))
        c.check(f'select_variables({keep}): the requested variables are kept, other data variables are dropped',
                {k for k in sub._vars if k in ('temp', 'salt')} == set(keep))
        for g in sorted(want):
            v0, v1 = ds._vars[g], sub._vars.get(g)
            c.check(f'select_variables({keep}): geometry variable {g!r} is kept untouched (same data, dimensions, attributes)',
                    v1 is not None and v1.arr is v0.arr and v1.dims == v0.dims and v1.attrs == v0.attrs)
            c.check(f'select_variables({keep}): {g!r} stays a {"coordinate" if g in ds._coord_names else "variable"}',
                    v1 is not None and (g in sub._coord_names) == (g in ds._coord_names))
        c.check(f'select_variables({keep}): global attributes kept', sub.attrs == ds.attrs)


NATIVE = {'': 'clip_valid', 'select_variables': 'select_variables'}
