"""C09 stub"""
PROPERTY = 'C09'


def scenarios(tier):
    return []


NATIVE = {'': 'clip_valid'}
