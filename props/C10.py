"""C10 -- mesh topology is independent of the encoding; supplied tables are used as given.

Functions under contract (real bodies): Mesh2DTopology._to_index_array, _get_start_index, face_node_array, edge_node_array, face_edge_array,
edge_face_array, face_face_array (supplied-table branches), has_valid_*_connectivity, *_connectivity, mesh_variable, mesh_attributes,
face_dimension, edge_dimension, has_edge_dimension, node_dimension, max_node_dimension, two_dimension, node_x/y, face_x/y, edge_x/y, counts,
sensible_fill_value.
Specification: an abstract table T (rows x width): row r has cnt(r) entries val(r, 0..cnt-1), the rest is missing.  A file encodes it
with start_index in {absent, 0, 1, '0', '1'}, missing entries as NaN (float table), as the _FillValue attribute (integer table) or not at
all (cnt = width), rows first or columns first.  Decoding must give back T: entry (r, j) is masked iff j >= cnt(r), and equals val(r, j)
otherwise -- the same T whatever the encoding, hence identical faces.
Derived tables: make_edge_face_array and make_face_face_array by loop invariants, _face_and_node_pair_iter at its yield, make_edge_node_array
at its dictionary update (what every side of every face records).  NOT decided here (dictionaries keyed by symbolic node pairs): what the
dictionary of sets of make_edge_node_array holds after the loops and the table made from it, and make_face_edge_array -- bounded native
stand-in harness/native/C10.py, labelled bounded.
"""
from __future__ import annotations

import itertools

import z3

from contracts import inputs
from contracts.ugrid import FILL_KEY
from pyvc import core
from pyvc.api import (FIN, PathEnd, SFloat, Variable, XDataArray, XDataset, add_var, attr, call, cls, expect_ok, expect_raise, fn, method,
                      mk_bool, mk_int, new_interp, outcome, s_and, s_eq, s_implies, s_ite, s_not, s_or, sym_array, sym_size, zint)
from pyvc.lib.floats import NAN
from pyvc.lib.numpy_ import FLOAT64, INT32, INT64, NDArray

PROPERTY = 'C10'
FILL_INT = -999
TABLE_INFO = {           # name: (row dimension, column dimension, primary-dimension property)
    'face_node': ('nface', 'maxn'), 'face_edge': ('nface', 'maxn'), 'face_face': ('nface', 'maxn'),
    'edge_node': ('nedge', 'Two'), 'edge_face': ('nedge', 'Two'),
}


def scenarios(tier):
    out = []
    for table in TABLE_INFO:
        for fill, si, tr in itertools.product(('none', 'int_fill', 'nan'), (None, 0, 1, '1'), (False, True)):
            if table != 'face_node' and tier == 'quick' and (si in (None, '1') and tr):
                continue
            out.append({'name': f'{table}_array decodes[{fill}, start_index={si!r}, {"columns first" if tr else "rows first"}]',
                        'fn': 'scn_decode', 'kwargs': {'table': table, 'fill': fill, 'si': si, 'tr': tr}})
    for edges in ('none', 'dimension', 'edge_node', 'edge_face', 'both'):
        for fda in (True, False):
            for coords_as in ('vars', 'coords'):
                out.append({'name': f'dimensions and coordinates[edges={edges}, face_dimension attribute={fda}, coordinates as {coords_as}]',
                            'fn': 'scn_dimensions', 'kwargs': {'edges': edges, 'fda': fda, 'coords_as': coords_as}})
    for two in ('Two', 'nv', 'absent'):
        out.append({'name': f'two_dimension[{two}]', 'fn': 'scn_two', 'kwargs': {'two': two}})
    out.append({'name': 'tables with unexpected dimensions are rejected with a warning', 'fn': 'scn_invalid', 'kwargs': {}})
    out.append({'name': 'face_edge _FillValue inside / outside the index range', 'fn': 'scn_fill_range', 'kwargs': {}})
    out.append({'name': 'invalid start_index is refused', 'fn': 'scn_bad_start', 'kwargs': {}})
    out.append({'name': 'sensible_fill_value exceeds every index', 'fn': 'scn_sensible', 'kwargs': {}})
    out.append({'name': 'derived face-face table (make_face_face_array, loop invariant)', 'fn': 'scn_make_face_face', 'kwargs': {}})
    for maxn in (3, 4):
        out.append({'name': f'derived edge-face table (make_edge_face_array, loop invariant)[faces of up to {maxn} edges]', 'fn': 'scn_make_edge_face', 'kwargs': {'maxn': maxn}})
    for sized in (True, False):
        out.append({'name': f'edge_count[edge dimension {"with" if sized else "without"} a size in the dataset]', 'fn': 'scn_edge_count', 'kwargs': {'sized': sized}})
    for maxn in (3, 4, 6):
        out.append({'name': f'derived edge-node table: what the loop records for each side (make_edge_node_array at its dictionary update)[faces of up to {maxn} nodes]',
                    'fn': 'scn_edge_node_body', 'kwargs': {'maxn': maxn}})
    for n in range(0, 8):
        out.append({'name': f'utils.pairwise[{n} entries]', 'fn': 'scn_pairwise', 'kwargs': {'n': n}})
    for maxn, fill, si in ((4, 'int_fill', 1), (5, 'nan', 0), (5, 'int_fill', 0), (6, 'nan', 1), (3, 'none', 1)):
        out.append({'name': f'the sides of every face (_face_and_node_pair_iter at its yield)[up to {maxn} nodes, {fill}, start_index={si}]', 'fn': 'scn_pair_iter',
                    'kwargs': {'maxn': maxn, 'fill': fill, 'si': si}})
    return out


class Table:
    """abstract table + one encoding of it"""

    def __init__(self, c, name, nrows, width, fill, si, tr, rowdim, coldim, upper):
        self.cnt_f = c.fresh_fn(name + '_cnt', z3.IntSort(), z3.IntSort())
        self.val_f = c.fresh_fn(name + '_val', z3.IntSort(), z3.IntSort(), z3.IntSort())
        self.nrows, self.width, self.fill = nrows, width, fill
        siv = int(si) if isinstance(si, int) or si in ('0', '1') else 0

        def cnt(r):
            k = self.cnt_f(zint(r))
            core.ctx().assume(k == zint(width) if fill == 'none' else z3.And(k >= 0, k <= zint(width)))
            return mk_int(k)

        def val(r, j):
            v = self.val_f(zint(r), zint(j))
            core.ctx().assume(z3.And(v >= 0, v < zint(upper)))      # VALID-UGRID: indexes are in range
            return mk_int(v)
        self.cnt, self.val = cnt, val

        def elem(r, j):
            present = mk_bool(zint(j) < zint(cnt(r)))
            if fill == 'nan':
                return SFloat(s_ite(present, FIN, NAN), val(r, j) + siv)
            if fill == 'int_fill':
                return s_ite(present, val(r, j) + siv, FILL_INT)
            return val(r, j) + siv
        dt = FLOAT64 if fill == 'nan' else INT32
        if tr:
            arr, dims = NDArray((width, nrows), lambda i: elem(i[1], i[0]), dt), (coldim, rowdim)
        else:
            arr, dims = NDArray((nrows, width), lambda i: elem(i[0], i[1]), dt), (rowdim, coldim)
        attrs = {'cf_role': name + '_connectivity'}
        if si is not None:
            attrs['start_index'] = si
        if fill == 'int_fill':
            attrs['_FillValue'] = FILL_INT
        self.variable = Variable(dims, arr, attrs, {'dtype': INT32, '_FillValue': FILL_INT} if fill == 'nan' else {})


def _mesh(c, table, fill, si, tr):
    """UGRID dataset whose ``table`` is an encoded abstract table; every other supplied table is arbitrary"""
    need_edges = table.startswith('edge') or table == 'face_edge'
    tables = () if table in ('face_node', 'edge_node') else (table,)
    ds = inputs.ugrid(c, edges='both' if need_edges else 'none', tables=tables, kw_maxn=None)
    info = ds.info
    rowdim, coldim = TABLE_INFO[table]
    nrows = info['nface'] if rowdim == 'nface' else info['nedge']
    width = info['maxn'] if coldim == 'maxn' else 2
    upper = {'face_node': info['nnode'], 'edge_node': info['nnode'], 'face_edge': info['nedge'], 'edge_face': info['nface'], 'face_face': info['nface']}[table]
    t = Table(c, table, nrows, width, fill, si, tr, rowdim, coldim, upper)
    ds._vars[table] = t.variable
    if table != 'face_node':
        # every table carries its OWN index base: the face-node table of this dataset uses the other one
        ds._vars['face_node'].attrs['start_index'] = 0 if (si in (1, '1')) else 1
    return ds, t, nrows, width


def scn_decode(c, table, fill, si, tr):
    it = new_interp(use=[FILL_KEY])
    ds, t, nrows, width = _mesh(c, table, fill, si, tr)
    conv = it.instantiate(cls(it, 'emsarray.conventions.ugrid', 'UGrid'), [ds], {})
    topo = expect_ok(c, 'topology', lambda: it.getattr(conv, 'topology'))
    from pyvc.api import check_unmodified, snapshot
    snap = snapshot(ds)
    arr = expect_ok(c, f'{table}_array returns', lambda: it.getattr(topo, table + '_array'))
    check_unmodified(c, ds, snap, 'the dataset whose table is decoded (a later reader of the same arrays sees the file as stored)')
    if isinstance(si, str):
        c.check('a string start_index is accepted with a warning', any(e[0] == 'warning' for e in c.events))
    c.check('rows first, whatever the stored order', len(arr.shape) == 2 and s_eq(arr.shape[0], nrows) and s_eq(arr.shape[1], width))
    if len(arr.shape) != 2:
        raise PathEnd()
    c.check('an integer array', arr.dtype.kind == 'i')
    r, j = c.fresh_int('r'), c.fresh_int('j')
    for q, n in ((r, nrows), (j, width)):
        c.assume(q >= 0)
        c.assume(q < n)
    masked = arr.mask_fn((r, j)) if arr.mask_fn is not None else False
    c.check('a masked array (missing entries are masked, not left as numbers)', arr.mask_fn is not None)
    c.check('entry (r, j) is missing exactly when row r has no j-th entry', s_eq(masked, mk_bool(zint(j) >= zint(t.cnt(r)))))
    c.check('a present entry is the zero-based index the file encodes, whatever the start_index / fill / orientation',
            s_implies(s_not(masked), s_eq(arr.fn((r, j)), t.val(r, j))))
    if table != 'face_node':
        c.check(f'the supplied {table} table counts as valid', it.getattr(topo, f'has_valid_{table}_connectivity') is True)


def scn_make_edge_face(c, maxn):
    """make_edge_face_array (real body; LOOP-INVARIANT over the faces, the short inner loop unrolled): edge e lists exactly the faces that name
    it in their face-edge row, in increasing face order, the rest of its row is missing.  Ghost functions: R(e, f) = number of faces below f
    that contain edge e, F(e, j) = the j-th face containing e."""
    from pyvc.api import LoopSpec, loop_invariant, sym_size
    from pyvc.contract import Contract
    from pyvc.lib.numpy_ import MASKED
    it = new_interp(use=[FILL_KEY])
    ds = inputs.ugrid(c, edges='both', kw_maxn=maxn)
    nf, ne = ds.info['nface'], ds.info['nedge']
    topo = it.instantiate(cls(it, 'emsarray.conventions.ugrid', 'Mesh2DTopology'), [ds], {})
    cnt_f = c.fresh_fn('fe_cnt', z3.IntSort(), z3.IntSort())
    E = c.fresh_fn('fe_edge', z3.IntSort(), z3.IntSort(), z3.IntSort())
    R = c.fresh_fn('faces_below', z3.IntSort(), z3.IntSort(), z3.IntSort())        # ghost
    F = c.fresh_fn('jth_face', z3.IntSort(), z3.IntSort(), z3.IntSort())           # ghost

    def cnt(f):
        k = cnt_f(zint(f))
        core.ctx().assume(z3.And(k >= 0, k <= maxn))
        return k

    def edge(f, col):
        v = E(zint(f), zint(col))
        core.ctx().assume(z3.And(v >= 0, v < zint(ne)))        # VALID-UGRID: indexes are in range
        return v

    def contains(f, e):        # edge e is one of the edges of face f
        return z3.Or(*[z3.And(col < cnt(f), edge(f, col) == zint(e)) for col in range(maxn)])

    fea = NDArray((nf, maxn), lambda i: mk_int(edge(i[0], i[1])), INT32, lambda i: mk_bool(zint(i[1]) >= cnt(i[0])))
    topo.attrs['face_edge_array'] = fea          # callee contract: the (decoded or derived) face-edge table, rows padded with missing entries

    def valid_face(f):
        # VALID-UGRID: the edges of one face are distinct; an edge belongs to at most two faces (so its row of two has room)
        for a in range(maxn):
            for b in range(a + 1, maxn):
                c.assume(z3.Implies(b < cnt(f), edge(f, a) != edge(f, b)))
            c.assume(z3.Implies(a < cnt(f), R(edge(f, a), zint(f)) <= 1))
            c.assume(R(edge(f, a), zint(f)) >= 0)            # a count (follows from the definition of R; stated here for the body)

    def define_R(e, f):          # definition of the ghost counter at (e, f): one more when face f contains e
        c.assume(R(zint(e), zint(f) + 1) == R(zint(e), zint(f)) + z3.If(contains(f, e), 1, 0))
        c.assume(z3.And(R(zint(e), zint(f)) >= 0, R(zint(e), 0) == 0))

    def define_F(e, f):          # definition of the ghost enumeration at (e, f): the face that raises the counter of e from j to j + 1 is its j-th face
        c.assume(z3.Implies(contains(f, e), F(zint(e), R(zint(e), zint(f))) == zint(f)))

    def state(k):
        """the two arrays after k faces, as the invariant describes them"""
        def count_at(i):
            return mk_int(R(zint(i[0]), zint(k)))

        def ef_val(i):
            return mk_int(F(zint(i[0]), zint(i[1])))

        def ef_mask(i):
            return mk_bool(zint(i[1]) >= R(zint(i[0]), zint(k)))
        return NDArray((ne, 2), ef_val, INT32, ef_mask), NDArray((ne,), count_at, INT32)

    box = {}

    def init(env):
        ef, count = env.lookup('edge_face'), env.lookup('edge_face_count')
        e = c.fresh_int('e0')
        c.assume(e >= 0)
        c.assume(e < ne)
        c.assume(R(e.z, 0) == 0)
        c.check('before the loop: every edge has seen no face, its row is entirely missing',
                s_and(s_eq(count.fn((e,)), 0), ef.mask_fn is not None and s_and(core.truthy(ef.mask_fn((e, 0))), core.truthy(ef.mask_fn((e, 1))))))

    def havoc(env, k):
        f = k
        valid_face(f)
        ef, count = state(f)
        env.vars['edge_face'], env.vars['edge_face_count'] = ef, count
        box['ef'], box['count'] = ef, count

    def step(env, k):
        ef, count = env.lookup('edge_face'), env.lookup('edge_face_count')
        c.check('the loop keeps working on the same two arrays', ef is box['ef'] and count is box['count'])
        e = c.fresh_int('e')
        c.assume(e >= 0)
        c.assume(e < ne)
        define_R(e, k)
        define_F(e, k)
        for col in range(maxn):          # the definitions at the edges of this face (they are the entries the body touches)
            define_R(mk_int(edge(k, col)), k)
            define_F(mk_int(edge(k, col)), k)
        c.check('after face k: the counter of every edge is the number of faces up to k that contain it', s_eq(count.fn((e,)), mk_int(R(e.z, zint(k) + 1))))
        for j in (0, 1):
            m = core.truthy(ef.mask_fn((e, j)))
            c.check(f'after face k: entry {j} of an edge is present exactly when it has more than {j} faces so far', s_eq(m, mk_bool(j >= R(e.z, zint(k) + 1))))
            c.check(f'after face k: a present entry {j} is the {j}-th face containing the edge', s_implies(s_not(m), s_eq(ef.fn((e, j)), mk_int(F(e.z, j)))))

    def final(env, n):
        env.vars['edge_face'], env.vars['edge_face_count'] = state(n)

    func = it.class_attr(cls(it, 'emsarray.conventions.ugrid', 'Mesh2DTopology'), 'make_edge_face_array')[1]
    loop_invariant(it, func, 'for face_index, edge_indexes in enumerate(self.face_edge_array)', LoopSpec(init, havoc, step, final))
    out = expect_ok(c, 'make_edge_face_array returns', lambda: method(it, topo, 'make_edge_face_array'))
    c.check('shape (edges, 2), masked integers', len(out.shape) == 2 and s_eq(out.shape[0], ne) and out.shape[1] == 2 and out.mask_fn is not None and out.dtype.kind == 'i')
    e, j = c.fresh_int('eq'), c.fresh_int('jq')
    c.assume(z3.And(e.z >= 0, e.z < zint(ne), j.z >= 0, j.z < 2))
    c.check('edge e lists exactly its R(e, all faces) faces: entry j is present iff j is below that number', s_eq(core.truthy(out.mask_fn((e, j))), mk_bool(j.z >= R(e.z, zint(nf)))))
    c.check('and entry j is the j-th face (in increasing face order) whose face-edge row names e', s_implies(s_not(core.truthy(out.mask_fn((e, j)))), s_eq(out.fn((e, j)), mk_int(F(e.z, j.z)))))


def scn_make_face_face(c):
    """make_face_face_array (real body; LOOP-INVARIANT over the edges): face f lists, in increasing edge order, the face on the other side of
    every interior edge it is on; boundary edges (one missing entry) add nothing.  Ghost functions: Q(f, e) = number of interior edges below e
    that face f is on, N(f, j) = the neighbour across the j-th of them."""
    from pyvc.api import LoopSpec, loop_invariant
    it = new_interp(use=[FILL_KEY])
    ds = inputs.ugrid(c, edges='both')
    nf, ne, maxn = ds.info['nface'], ds.info['nedge'], ds.info['maxn']
    topo = it.instantiate(cls(it, 'emsarray.conventions.ugrid', 'Mesh2DTopology'), [ds], {})
    Lf = c.fresh_fn('ef_left', z3.IntSort(), z3.IntSort())
    Rf = c.fresh_fn('ef_right', z3.IntSort(), z3.IntSort())
    n_present = c.fresh_fn('ef_cnt', z3.IntSort(), z3.IntSort())          # 0, 1 or 2 entries present, as a prefix of the row
    Q = c.fresh_fn('edges_below', z3.IntSort(), z3.IntSort(), z3.IntSort())          # ghost
    N = c.fresh_fn('jth_neighbour', z3.IntSort(), z3.IntSort(), z3.IntSort())        # ghost

    def side(e, j):
        v = (Lf if j == 0 else Rf)(zint(e))
        core.ctx().assume(z3.And(v >= 0, v < zint(nf)))       # VALID-UGRID: indexes are in range
        return v

    def present(e):
        k = n_present(zint(e))
        core.ctx().assume(z3.And(k >= 0, k <= 2))
        return k

    def interior(e):
        return present(e) == 2

    def on(f, e):
        return z3.And(interior(e), z3.Or(side(e, 0) == zint(f), side(e, 1) == zint(f)))

    efa = NDArray((ne, 2), lambda i: mk_int(z3.If(zint(i[1]) == 0, side(i[0], 0), side(i[0], 1))), INT32, lambda i: mk_bool(zint(i[1]) >= present(i[0])))
    topo.attrs['edge_face_array'] = efa           # callee contract: the (decoded or derived) edge-face table

    def valid_edge(e):
        # VALID-UGRID: the two faces of an interior edge differ; a face is on at most max_node_count interior edges (its row has room)
        c.assume(z3.Implies(interior(e), side(e, 0) != side(e, 1)))
        for j in (0, 1):
            c.assume(z3.And(Q(side(e, j), zint(e)) >= 0, z3.Implies(interior(e), Q(side(e, j), zint(e)) < zint(maxn))))

    def define(f, e):
        c.assume(Q(zint(f), zint(e) + 1) == Q(zint(f), zint(e)) + z3.If(on(f, e), 1, 0))
        c.assume(z3.And(Q(zint(f), zint(e)) >= 0, Q(zint(f), 0) == 0))
        other = z3.If(side(e, 0) == zint(f), side(e, 1), side(e, 0))
        c.assume(z3.Implies(on(f, e), N(zint(f), Q(zint(f), zint(e))) == other))

    def state(k):
        ff = NDArray((nf, maxn), lambda i: mk_int(N(zint(i[0]), zint(i[1]))), INT32, lambda i: mk_bool(zint(i[1]) >= Q(zint(i[0]), zint(k))))
        cnt = NDArray((nf,), lambda i: mk_int(Q(zint(i[0]), zint(k))), INT32)
        return ff, cnt

    box = {}

    def init(env):
        ff, cnt = env.lookup('face_face'), env.lookup('face_count')
        f = c.fresh_int('f0')
        j = c.fresh_int('j0')
        c.assume(z3.And(f.z >= 0, f.z < zint(nf), j.z >= 0, j.z < zint(maxn)))
        c.assume(Q(f.z, 0) == 0)
        c.check('before the loop: no face has a neighbour yet, every row is entirely missing',
                s_and(s_eq(cnt.fn((f,)), 0), ff.mask_fn is not None and core.truthy(ff.mask_fn((f, j)))))

    def havoc(env, k):
        valid_edge(k)
        ff, cnt = state(k)
        env.vars['face_face'], env.vars['face_count'] = ff, cnt
        box['ff'], box['cnt'] = ff, cnt

    def step(env, k):
        ff, cnt = env.lookup('face_face'), env.lookup('face_count')
        c.check('the loop keeps working on the same two arrays', ff is box['ff'] and cnt is box['cnt'])
        f, j = c.fresh_int('f'), c.fresh_int('j')
        c.assume(z3.And(f.z >= 0, f.z < zint(nf), j.z >= 0, j.z < zint(maxn)))
        define(f, k)
        for sd in (0, 1):
            define(mk_int(side(k, sd)), k)
        c.check('after edge k: the counter of every face is the number of interior edges up to k it is on', s_eq(cnt.fn((f,)), mk_int(Q(f.z, zint(k) + 1))))
        m = core.truthy(ff.mask_fn((f, j)))
        c.check('after edge k: entry j of a face is present exactly when it is on more than j interior edges so far', s_eq(m, mk_bool(j.z >= Q(f.z, zint(k) + 1))))
        c.check('after edge k: a present entry j is the face across the j-th interior edge of the face', s_implies(s_not(m), s_eq(ff.fn((f, j)), mk_int(N(f.z, j.z)))))

    def final(env, n):
        env.vars['face_face'], env.vars['face_count'] = state(n)

    func = it.class_attr(cls(it, 'emsarray.conventions.ugrid', 'Mesh2DTopology'), 'make_face_face_array')[1]
    loop_invariant(it, func, 'for edge_index, face_indexes in enumerate(self.edge_face_array)', LoopSpec(init, havoc, step, final))
    out = expect_ok(c, 'make_face_face_array returns', lambda: method(it, topo, 'make_face_face_array'))
    c.check('shape (faces, max nodes), masked integers', len(out.shape) == 2 and s_eq(out.shape[0], nf) and s_eq(out.shape[1], maxn) and out.mask_fn is not None and out.dtype.kind == 'i')
    f, j = c.fresh_int('fq'), c.fresh_int('jq')
    c.assume(z3.And(f.z >= 0, f.z < zint(nf), j.z >= 0, j.z < zint(maxn)))
    c.check('face f lists exactly its interior edges: entry j is present iff j is below their number', s_eq(core.truthy(out.mask_fn((f, j))), mk_bool(j.z >= Q(f.z, zint(ne)))))
    c.check('and entry j is the face on the other side of its j-th interior edge (in increasing edge order)', s_implies(s_not(core.truthy(out.mask_fn((f, j)))), s_eq(out.fn((f, j)), mk_int(N(f.z, j.z)))))


def scn_dimensions(c, edges, fda, coords_as):
    it = new_interp(use=[FILL_KEY])
    kw = {'edges': 'both' if edges == 'both' else ('none' if edges == 'edge_face' else edges)}
    tables = ('edge_face',) if edges == 'edge_face' else ()
    ds = inputs.ugrid(c, face_dimension_attr=fda, coords_as=coords_as, face_coords=True, edge_coords=edges in ('both', 'edge_node', 'dimension'), tables=tables, **kw)
    topo = it.instantiate(cls(it, 'emsarray.conventions.ugrid', 'Mesh2DTopology'), [ds], {})
    g = lambda name: expect_ok(c, name, lambda: it.getattr(topo, name))
    c.check('face dimension', g('face_dimension') == 'nface')
    c.check('node dimension', g('node_dimension') == 'nnode')
    c.check('max-node dimension is the other dimension of the face-node table', g('max_node_dimension') == 'maxn')
    c.check('face / node / max-node counts are the dimension sizes',
            s_and(s_eq(g('face_count'), ds.info['nface']), s_eq(g('node_count'), ds.info['nnode']), s_eq(g('max_node_count'), ds.info['maxn'])))
    has = edges != 'none'
    c.check(f'has_edge_dimension is {has}', g('has_edge_dimension') is has)
    NoEdge = cls(it, 'emsarray.conventions.ugrid', 'NoEdgeDimensionException')
    if has:
        c.check('edge dimension (declared, or implied by the first dimension of an edge table)', g('edge_dimension') == 'nedge')
        c.check('edge count is the size of the edge dimension', s_eq(g('edge_count'), ds.info['nedge']))
    else:
        expect_raise(c, 'edge_dimension without any edge information raises NoEdgeDimensionException', lambda: it.getattr(topo, 'edge_dimension'), NoEdge)
        expect_raise(c, 'edge_node_array without any edge information raises NoEdgeDimensionException', lambda: it.getattr(topo, 'edge_node_array'), NoEdge)
    kinds = g('dimension_for_grid_kind')
    c.check('grid kinds are face, node and (only with an edge dimension) edge', sorted(k.name for k in kinds) == sorted(['face', 'node'] + (['edge'] if has else [])))
    # coordinates are found by the names in the mesh variable, whether xarray holds them as variables or as coordinates
    q = c.fresh_int('q')
    c.assume(q >= 0)
    for name, var, n in (('node_x', 'node_x', 'nnode'), ('node_y', 'node_y', 'nnode'), ('face_x', 'face_x', 'nface'), ('face_y', 'face_y', 'nface')) + \
            ((('edge_x', 'edge_x', 'nedge'), ('edge_y', 'edge_y', 'nedge')) if 'edge_x' in ds._vars else ()):
        da = g(name)
        c.check(f'{name} is found', isinstance(da, XDataArray))
        if isinstance(da, XDataArray):
            c.check(f'{name} is the variable named by the mesh attributes', da.variable.dims == ds._vars[var].dims and
                    s_implies(mk_bool(q.z < zint(ds.info[n])), da.variable.arr.fn((q,)).same_bits(ds._vars[var].arr.fn((q,)))))
    if 'edge_x' not in ds._vars:
        c.check('edge coordinates that are not named are None', g('edge_x') is None and g('edge_y') is None)


def scn_two(c, two):
    it = new_interp(use=[FILL_KEY])
    ds = inputs.ugrid(c, edges='dimension')
    if two != 'absent':
        add_var(ds, 'bnds', ('nface', two), sym_array(c, 'bnds', (ds.info['nface'], 2), 'real'))
    add_var(ds, 'triple', ('nface', 'three'), sym_array(c, 'triple', (ds.info['nface'], 3), 'real'))
    c.assume(ds.info['nface'] != 2)
    c.assume(ds.info['nnode'] != 2)
    c.assume(ds.info['nedge'] != 2)
    c.assume(ds.info['maxn'] != 2)
    topo = it.instantiate(cls(it, 'emsarray.conventions.ugrid', 'Mesh2DTopology'), [ds], {})
    got = expect_ok(c, 'two_dimension', lambda: it.getattr(topo, 'two_dimension'))
    c.check("the dimension of size two: 'Two' when present, else another dimension of size 2, else the standard name",
            got == {'Two': 'Two', 'nv': 'nv', 'absent': 'Two'}[two])


def scn_invalid(c):
    it = new_interp(use=[FILL_KEY])
    for table in ('edge_node', 'face_edge', 'edge_face', 'face_face'):
        ds = inputs.ugrid(c, edges='both', tables=() if table == 'edge_node' else (table,))
        v = ds._vars[table]
        wrong = ('nnode', v.dims[1])
        ds._vars[table] = Variable(wrong, sym_array(c, 'wrong_' + table, (ds.info['nnode'], v.arr.shape[1]), 'int', INT32), dict(v.attrs), {})
        topo = it.instantiate(cls(it, 'emsarray.conventions.ugrid', 'Mesh2DTopology'), [ds], {})
        n0 = len(c.events)
        ok = expect_ok(c, f'has_valid_{table}_connectivity', lambda: it.getattr(topo, f'has_valid_{table}_connectivity'))
        c.check(f'a {table} table on the wrong dimensions is not used', ok is False)
        c.check(f'... and a ConventionViolationWarning says so', any(e[0] == 'warning' for e in c.events[n0:]))
        # absent variable named by the attribute
        ds2 = inputs.ugrid(c, edges='both')
        ds2._vars['mesh'].attrs[table + '_connectivity'] = 'no_such_variable'
        topo2 = it.instantiate(cls(it, 'emsarray.conventions.ugrid', 'Mesh2DTopology'), [ds2], {})
        ok2 = expect_ok(c, f'has_valid_{table}_connectivity (dangling name)', lambda: it.getattr(topo2, f'has_valid_{table}_connectivity'))
        c.check(f'a {table} attribute naming a variable that does not exist is not used', ok2 is False)


def scn_fill_range(c):
    """face_edge decoded by xarray (float, NaN) keeps its _FillValue in .encoding: a fill value that could be an edge index makes
    the table ambiguous (rejected with a warning); one outside the index range is fine."""
    it = new_interp(use=[FILL_KEY])
    for si in (0, 1):
        ds, t, nrows, width = _mesh(c, 'face_edge', 'nan', si, False)
        fv = c.fresh_int('fv')
        ds._vars['face_edge'].encoding['_FillValue'] = fv
        topo = it.instantiate(cls(it, 'emsarray.conventions.ugrid', 'Mesh2DTopology'), [ds], {})
        n0 = len(c.events)
        ok = expect_ok(c, f'has_valid_face_edge_connectivity[start_index={si}]', lambda: it.getattr(topo, 'has_valid_face_edge_connectivity'))
        ne = ds.info['nedge']
        outside = s_or(mk_bool(fv.z < si), mk_bool(fv.z > zint(ne) + si))
        inside = s_and(mk_bool(fv.z >= si), mk_bool(fv.z <= zint(ne) - 1 + si))
        c.check(f'[start_index={si}] a fill value outside the index range leaves the supplied table in use', s_implies(outside, ok is True))
        c.check(f'[start_index={si}] a fill value that is a possible edge index rejects the table', s_implies(inside, ok is False))
        c.check(f'[start_index={si}] ... with a warning', s_implies(inside, any(e[0] == 'warning' for e in c.events[n0:])))


def scn_bad_start(c):
    it = new_interp(use=[FILL_KEY])
    CVE = cls(it, 'emsarray.exceptions', 'ConventionViolationError')
    for bad in (2, -1, 'one', 1.5):
        ds, t, nrows, width = _mesh(c, 'face_node', 'none', bad, False)
        topo = it.instantiate(cls(it, 'emsarray.conventions.ugrid', 'Mesh2DTopology'), [ds], {})
        expect_raise(c, f'start_index={bad!r} is refused with ConventionViolationError', lambda: it.getattr(topo, 'face_node_array'), CVE)


def scn_sensible(c):
    """int('9' * (digits + 1)) is larger than every node index and every face x max-node slot (A-INT64 counts)"""
    it = new_interp()
    ds = inputs.ugrid(c, edges='none')
    for n in (ds.info['nface'], ds.info['nnode'], ds.info['maxn']):
        c.assume(n < 10 ** 9)        # A-INT32-SIZE: dimension sizes fit 32 bits; the product then has at most 18 digits
    topo = it.instantiate(cls(it, 'emsarray.conventions.ugrid', 'Mesh2DTopology'), [ds], {})
    fv = expect_ok(c, 'sensible_fill_value', lambda: it.getattr(topo, 'sensible_fill_value'))
    c.check('larger than the node count', mk_bool(zint(fv) > zint(ds.info['nnode'])))
    c.check('larger than faces x max nodes (every possible edge index)', mk_bool(zint(fv) > zint(ds.info['nface']) * zint(ds.info['maxn'])))
    c.check('all nines: fill + 1 is a power of ten', _power_of_ten(zint(fv) + 1))


def _power_of_ten(z):
    return mk_bool(z3.Or(*[z == 10 ** k for k in range(1, 25)]))


NATIVE = {'': 'topology', '_FillValue': 'fill_range'}


def scn_pair_iter(c, maxn, fill, si):
    """Mesh2DTopology._face_and_node_pair_iter, the helper behind the derived edge-node and face-edge tables (and through them the derived
    edge-face and face-face tables), at its yield statement for an arbitrary face f (the loop over the faces is entered with a Skolem
    iteration): what is yielded is (f, the sides of face f) - the consecutive pairs of the nodes of face f itself, closed with
    (last, first); padding never becomes a node, whatever the width of the table and the fill representation."""
    from pyvc.api import run_until
    it = new_interp(use=[FILL_KEY])
    ds = inputs.ugrid_mesh(c, maxn=maxn, fill=fill, start_index=si, edges='both')
    info = ds.info
    topo = it.instantiate(cls(it, 'emsarray.conventions.ugrid', 'Mesh2DTopology'), [ds], {})
    _, f = it.class_attr(topo.cls, '_face_and_node_pair_iter')
    env = run_until(it, f, 'yield', lambda: list(it.iterate(method(it, topo, '_face_and_node_pair_iter'))))
    if env is None:
        raise PathEnd()           # a mesh without faces: nothing is yielded
    fi, nodes = env.lookup('face_index'), env.lookup('node_indexes')
    c.check('the face index yielded is a row of the table', mk_bool(z3.And(zint(fi) >= 0, zint(fi) < zint(info['nface']))))
    cnt = info['mesh_count'](fi)
    c.check('the node list of face f has one entry per node of f, plus the first node again', len(nodes.shape) == 1 and s_eq(nodes.shape[0], cnt + 1))
    j = c.fresh_int('jq')
    c.assume(j >= 0)
    c.assume(j < cnt)
    got = nodes.fn((j,))
    c.check('entry j is node j of face f itself (zero-based, whatever the index base and fill representation of the file)', s_eq(got, info['mesh_node'](fi, j)))
    c.check('the list is closed with the first node of face f', s_eq(nodes.fn((cnt,)), info['mesh_node'](fi, 0)))
    # the yield expression: (face_index, list(pairwise(node list)))
    import ast
    st = [n for n in ast.walk(f.node) if isinstance(n, ast.Yield)]
    c.check('one yield: (face_index, list(utils.pairwise(node_indexes)))',
            len(st) == 1 and ast.unparse(st[0].value) == '(face_index, list(utils.pairwise(node_indexes)))')


def scn_edge_node_body(c, maxn):
    """Mesh2DTopology.make_edge_node_array (real body) at its dictionary update `low_highs[low].add(high)`, for an arbitrary face f and an
    arbitrary side j of it (both loops are entered with a Skolem iteration; the callee `_face_and_node_pair_iter` is replaced by its contract -
    verified by the scenarios 'the sides of every face' and 'utils.pairwise' above: face k yields (k, its cnt(k) consecutive node pairs closed
    with (last, first))).  What is recorded for the side (a, b) is: under the key min(a, b), the value max(a, b) - so the two faces that share an
    edge, which name it in opposite directions, record the same entry.  The accumulator is a defaultdict(set) created empty before the loop and
    the rows of the result are the (key, member) pairs of it; what a dictionary of sets keeps (one entry per distinct pair) is Python's, and the
    table as a whole is compared natively (bounded)."""
    import ast
    import collections
    from pyvc.api import run_until
    from pyvc.lib.seq import SymSeq
    it = new_interp(use=[FILL_KEY])
    ds = inputs.ugrid_mesh(c, maxn=maxn, fill='int_fill', start_index=0, edges='both')
    info = ds.info
    topo = it.instantiate(cls(it, 'emsarray.conventions.ugrid', 'Mesh2DTopology'), [ds], {})
    box = {}

    def sides(f):
        cnt = info['mesh_count'](f)

        def side(j):
            box['j'] = j
            nxt = mk_int(z3.If(zint(j) + 1 < zint(cnt), zint(j) + 1, 0))
            return (info['mesh_node'](f, j), info['mesh_node'](f, nxt))
        return SymSeq(cnt, side, 'list')

    def face(k):
        box['f'] = k
        return (k, sides(k))
    topo.attrs['_face_and_node_pair_iter'] = lambda *a, **kw: SymSeq(info['nface'], face, 'gen')      # callee contract
    _, f = it.class_attr(topo.cls, 'make_edge_node_array')
    env = run_until(it, f, 'low_highs[', lambda: method(it, topo, 'make_edge_node_array'))
    if env is None:
        raise PathEnd()           # no face, or a face without sides: nothing is recorded
    fi, pair, low, high, acc = (env.lookup(n) for n in ('face_index', 'pair', 'low', 'high', 'low_highs'))
    fk, jk = box['f'], box['j']
    a, b = info['mesh_node'](fk, jk), info['mesh_node'](fk, mk_int(z3.If(zint(jk) + 1 < zint(info['mesh_count'](fk)), zint(jk) + 1, 0)))
    c.check('the side being recorded is side j of face f (consecutive nodes of f, the last one paired with the first)',
            s_and(s_eq(fi, fk), s_eq(tuple(pair)[0], a), s_eq(tuple(pair)[1], b)))
    c.check('it is recorded under its lower node', s_eq(low, mk_int(z3.If(zint(a) <= zint(b), zint(a), zint(b)))))
    c.check('with its higher node as the member', s_eq(high, mk_int(z3.If(zint(a) <= zint(b), zint(b), zint(a)))))
    c.check('the accumulator is a defaultdict of sets that was empty before the loop', isinstance(acc, collections.defaultdict) and acc.default_factory is not None
            and len(acc) == 0 and isinstance(acc.default_factory(), (set, core.TSet)))
    def same(node, text, mode='exec'):          # same syntax tree as `text` (independent of how a Python version prints it)
        want = ast.parse(text, mode=mode)
        return ast.dump(node) == ast.dump(want.body[0] if mode == 'exec' else want.body)
    loops = sorted((n for n in ast.walk(f.node) if isinstance(n, ast.For)), key=lambda n: n.lineno)
    c.check('two nested loops (faces, sides of a face) whose only statement besides the unpacking is the dictionary update',
            len(loops) == 2 and len(loops[0].body) == 1 and loops[0].body[0] is loops[1] and not loops[0].orelse and not loops[1].orelse
            and same(loops[0].iter, 'self._face_and_node_pair_iter()', 'eval') and same(loops[1].iter, 'node_pairs', 'eval')
            and isinstance(loops[0].target, ast.Tuple) and [getattr(e, 'id', None) for e in loops[0].target.elts] == ['face_index', 'node_pairs']
            and getattr(loops[1].target, 'id', None) == 'pair' and len(loops[1].body) == 2
            and same(loops[1].body[0], 'low, high = sorted(pair)') and same(loops[1].body[1], 'low_highs[low].add(high)'))
    rets = [n for n in ast.walk(f.node) if isinstance(n, ast.Return)]
    c.check('one return: the rows are the (key, member) pairs of the accumulator, as [low, high], in the mesh index type',
            len(rets) == 1 and same(rets[0].value, 'numpy.array([[low, high] for low, highs in low_highs.items() for high in highs], '
                                    'dtype=self.sensible_dtype)', 'eval'))


def scn_pairwise(c, n):
    """utils.pairwise (real body, on a list of n symbolic entries): the consecutive pairs, in order"""
    it = new_interp()
    f = fn(it, 'emsarray.utils', 'pairwise')
    xs = [c.fresh_int(f'x{k}') for k in range(n)]
    r = expect_ok(c, 'pairwise returns', lambda: list(it.iterate(call(it, f, list(xs)))))
    c.check(f'pairwise of {n} entries: the {max(n - 1, 0)} consecutive pairs in order', len(r) == max(n - 1, 0) and all(tuple(p)[0] is xs[k] and tuple(p)[1] is xs[k + 1] for k, p in enumerate(r)))


def scn_edge_count(c, sized):
    """Mesh2DTopology.edge_count: the size of the edge dimension when the dataset has one; for an edge dimension that no variable is defined
    on, the number of rows of the (derived) edge-node table - whatever the numbers of nodes and faces are (a mesh may have holes, several
    parts, unused nodes)."""
    it = new_interp(use=[FILL_KEY])
    ds = inputs.ugrid(c, edges='dimension', edge_data=sized)
    topo = it.instantiate(cls(it, 'emsarray.conventions.ugrid', 'Mesh2DTopology'), [ds], {})
    rows = sym_size(c, 'derived_edges', 0)
    topo.attrs['edge_node_array'] = NDArray((rows, 2), sym_array(c, 'derived_edge_node', (rows, 2), 'int', INT32).fn, INT32)     # callee contract: one row per edge
    n = expect_ok(c, 'edge_count returns', lambda: attr(it, topo, 'edge_count'))
    if sized:
        c.check('edge_count is the size of the edge dimension', s_eq(n, ds.info['nedge']))
    else:
        c.check('edge_count is the number of rows of the edge-node table (one row per edge)', s_eq(n, rows))
