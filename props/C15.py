"""C15 -- geometry exports write one record per cell that has a polygon, in linear order, with the cell's own
linear index / native index and its exact polygon.

Under contract (real bodies): operations.geometry.to_geojson, write_geojson, _dumpable_iterator, write_shapefile, _maybe_open,
_to_multipolygon, write_wkt, write_wkb; Convention.wind_index (inline, C01/C03).
Callee contracts: Convention.polygons (contracts/base.py: slot n is None or the polygon of cell n; C02/C06).
Library contracts (pyvc/lib/exportlibs.py): geojson objects, pyshp Writer (field names kept to 10 characters), shapely
MultiPolygon / to_wkt / to_wkb, json.dump, open().  The byte-level round trip through the real libraries is the bounded
native part (harness/native/C15.py).
"""
from __future__ import annotations

import z3

from contracts import inputs
from contracts.base import POLY_KEYS, AbstractPoly, Coords, abstract_polygons
from pyvc import core
from pyvc.api import (PathEnd, call, expect_ok, fn, method, mk_bool, new_interp, s_eq, s_implies, zint)
from pyvc.core import Maybe
from props.C11 import _accessors, _entry_points
from pyvc.lib.exportlibs import GeoObj, MultiPoly, Serialised, ShpWriter
from pyvc.lib.numpy_ import unravel
from pyvc.lib.seq import SymSeq
from pyvc.lib.stdlib import BytesOf, FileModel, OpaqueValue, PathModel

from props._contracts import polygon_contract_scenarios, scn_polygon_contract  # noqa: F401

PROPERTY = 'C15'
CONFIGS = [('CFGrid1D', {}), ('CFGrid2D', {}), ('ShocStandard', {}), ('UGrid', {'edges': 'none'}),
           # data stored ahead of the coordinates with x before y: Dataset.sizes lists the dimensions in another order than the grid's (y, x)
           ('CFGrid1D', {'leading': ('lon', 'lat')}),
           ('ShocSimple', {'bounds': True}), ('CFGrid2D', {'bounds': 'coords'}), ('UGrid', {'edges': 'both'}), ('CFGrid1D', {'bounds': True})]      # the last four: thorough tier
MOD = 'emsarray.operations.geometry'


def scenarios(tier):
    out = []
    for ci, cfg in enumerate(CONFIGS if tier == 'thorough' else CONFIGS[:5]):
        out.append({'name': f'to_geojson[{cfg[0]} {cfg[1]}]', 'fn': 'scn_geojson', 'kwargs': {'ci': ci}})
        out.append({'name': f'write_shapefile[{cfg[0]} {cfg[1]}]', 'fn': 'scn_shapefile', 'kwargs': {'ci': ci}})
        out.append({'name': f'write_wkt / write_wkb[{cfg[0]} {cfg[1]}]', 'fn': 'scn_wk', 'kwargs': {'ci': ci}})
    out.append({'name': 'write_geojson streams to_geojson into the file', 'fn': 'scn_write_geojson', 'kwargs': {}})
    out.append({'name': 'write_shapefile with separate file arguments', 'fn': 'scn_shapefile_parts', 'kwargs': {}})
    out += polygon_contract_scenarios()
    return out


def _setup(c, ci):
    conv_name, kw = CONFIGS[ci]
    it = new_interp(use=POLY_KEYS)
    ds, conv = inputs.make_convention(it, c, conv_name, **kw)
    c.entry_points = _entry_points(it)
    _accessors(c, it)
    method(it, conv, 'bind')       # dataset.ems is this convention object (accessors.ems_accessor / State: C11)
    return it, ds, conv, conv_name


def _native_index(ds, conv_name, n):
    """specification of the native index of face cell n (C01): row-major components over the face grid"""
    comps = unravel(n, tuple(ds.info['shape']['face']))
    return inputs.native_index(conv_name, 'face', comps)


def _same_index(c, got, want):
    # the index is written as JSON: a list and a tuple are the same JSON array
    if isinstance(got, (tuple, list)) and isinstance(want, tuple) and len(got) == len(want):
        ok = True
        for g, w in zip(got, want):
            if isinstance(w, (int,)) or hasattr(w, 'z'):
                ok = ok & s_eq(g, w) if not isinstance(ok, bool) or ok else False
            else:
                ok = ok & (g is w or g == w) if not isinstance(ok, bool) or ok else False
        return ok
    if hasattr(want, 'z') or isinstance(want, int):
        return s_eq(got, want)
    return False


def _members_are_cells_in_order(c, seq, polys, what, cell_of):
    """seq enumerates exactly the cells with a polygon, in increasing linear order, each once."""
    size = polys.shape[0]
    c.check(f'{what}: a sequence selected from the polygon array', isinstance(seq, SymSeq) and getattr(seq, 'selection', None) is not None)
    if not (isinstance(seq, SymSeq) and getattr(seq, 'selection', None) is not None):
        raise PathEnd()
    sel = seq.selection
    k = c.fresh_int('k')
    c.assume(k >= 0)
    c.assume(k < seq.length)
    item = seq.at(k)
    cell = cell_of(item)
    c.check(f'{what}: entry k is built from a polygon of this dataset', cell is not None)
    if cell is None:
        raise PathEnd()
    c.check(f'{what}: entry k belongs to a cell that has a polygon', mk_bool(z3.Not(polys.hole(zint(cell)))))
    c.check(f'{what}: entry k is cell sel(k) -- cells with polygons in increasing linear order, each exactly once', s_eq(cell, sel.sel(k)))
    n = c.fresh_int('n')
    c.assume(n >= 0)
    c.assume(n < size)
    r = sel.rank(n)
    c.check(f'{what}: every cell with a polygon has an entry', s_implies(mk_bool(z3.Not(polys.hole(zint(n)))), mk_bool(z3.And(r.z >= 0, r.z < zint(seq.length)))))
    k2 = c.fresh_int('k2')
    c.assume(k2 >= 0)
    c.assume(k2 < seq.length)
    c.check(f'{what}: no cell appears twice', s_implies(mk_bool(zint(sel.sel(k2)) == zint(sel.sel(k))), s_eq(k, k2)))
    return k, item, cell


def _poly_of(x):
    """the polygon token behind a polygon / its geo interface / its coordinates"""
    if isinstance(x, Maybe):
        x = x.val        # 'x is None' is excluded separately: the hole obligation on the cell of x
    if isinstance(x, AbstractPoly):
        return x
    if isinstance(x, Coords):
        return x.poly
    if isinstance(x, dict) and isinstance(x.get('coordinates'), Coords):
        return x['coordinates'].poly
    return None


def scn_geojson(c, ci):
    it, ds, conv, conv_name = _setup(c, ci)
    f = fn(it, MOD, 'to_geojson')
    from pyvc.api import check_unmodified, snapshot
    snap = snapshot(ds)
    fc = expect_ok(c, 'to_geojson returns', lambda: call(it, f, ds))
    check_unmodified(c, ds, snap, 'the exported dataset')
    c.check('a FeatureCollection', isinstance(fc, GeoObj) and fc.kind == 'FeatureCollection' and len(fc.args) == 1)
    if not isinstance(fc, GeoObj):
        raise PathEnd()
    wrapper = fc.args[0]
    truth = expect_ok(c, 'bool(features)', lambda: it.call(it.getattr(wrapper, '__bool__'), [], {}))
    c.check('json sees a non-empty list (so it iterates it)', truth is True)
    feats = expect_ok(c, 'iter(features)', lambda: it.call(it.getattr(wrapper, '__iter__'), [], {}))
    polys = abstract_polygons(conv)

    def cell_of(feature):
        if not (isinstance(feature, GeoObj) and feature.kind == 'Feature'):
            return None
        g = feature.kwargs.get('geometry')
        if not (isinstance(g, GeoObj) and g.kind == 'Polygon' and g.args):
            return None
        p = _poly_of(g.args[0])
        return None if p is None else p.n
    k, feature, cell = _members_are_cells_in_order(c, feats, polys, 'features', cell_of)
    g = feature.kwargs['geometry']
    prec = g.kwargs.get('precision', 6 if len(g.args) < 2 else g.args[1])
    # GEOJSON-POLYGON: coordinates are rounded to `precision` decimal places; that is the identity for every double of magnitude >= 1e-23
    # (or zero) only when precision >= 40 (17 significant digits + 23 leading zeros); 6 (the default) and 17 are not enough (natively shown)
    c.check('the polygon coordinates are stored without rounding (geojson precision of at least 40 decimal places)',
            isinstance(prec, int) and prec >= 40)
    props = feature.kwargs.get('properties')
    c.check('properties carry linear_index and index', isinstance(props, dict) and set(props) == {'linear_index', 'index'})
    if not isinstance(props, dict) or set(props) != {'linear_index', 'index'}:
        raise PathEnd()
    c.check("properties['linear_index'] is the linear index of the very cell whose polygon the feature holds", s_eq(props['linear_index'], cell))
    c.check("properties['index'] is the native index of that cell", _same_index(c, props['index'], _native_index(ds, conv_name, cell)))


def scn_write_geojson(c):
    it, ds, conv, conv_name = _setup(c, 0)
    path = PathModel(OpaqueValue('path'))
    expect_ok(c, 'write_geojson returns', lambda: call(it, fn(it, MOD, 'write_geojson'), ds, path))
    opens = [e for e in c.events if e[0] == 'open']
    dumps = [e for e in c.events if e[0] == 'json.dump']
    c.check('the target path is opened once for writing text', len(opens) == 1 and opens[0][1][0] is path and tuple(opens[0][1][1:]) == ('w',))
    c.check('one json.dump', len(dumps) == 1)
    if len(dumps) != 1:
        raise PathEnd()
    obj, f = dumps[0][1], dumps[0][2]
    c.check('into the opened file', isinstance(f, FileModel) and f.a[0] is path)
    c.check('of a FeatureCollection over this dataset', isinstance(obj, GeoObj) and obj.kind == 'FeatureCollection')
    # the collection is the one to_geojson builds (same function, same dataset): entries decided in to_geojson scenarios
    feats = it.call(it.getattr(obj.args[0], '__iter__'), [], {})
    c.check('its features are selected from the polygons of this dataset', isinstance(feats, SymSeq) and feats.source is not None)


def _shp_check(c, it, ds, conv, conv_name, target_args, kw):
    polys = abstract_polygons(conv)
    from pyvc.api import check_unmodified, snapshot
    snap = snapshot(ds)
    expect_ok(c, 'write_shapefile returns', lambda: call(it, fn(it, MOD, 'write_shapefile'), ds, *target_args, **kw))
    check_unmodified(c, ds, snap, 'the exported dataset')
    writers = [e for e in c.events if e[0] == 'shp.Writer']
    c.check('one shapefile.Writer', len(writers) == 1)
    if len(writers) != 1:
        raise PathEnd()
    w = writers[0][1]
    c.check('three fields are declared; dbf keeps ten characters of each name', w.fields == ['name', 'linear_ind', 'index'])
    loops = [e for e in c.events if e[0] == 'foreach']
    c.check('one pass over the polygon array', len(loops) == 1)
    if len(loops) != 1:
        raise PathEnd()
    _, seq, k, sub, learnt = loops[0]
    for z in learnt:
        c.assume(z)             # what the executor learnt about the arbitrary iteration k (kept with its record, not with the path)
    src = seq._rows() if hasattr(seq, '_rows') else seq
    c.check('the pass visits every slot of the polygon array once, in order', s_eq(src.length, polys.shape[0]))
    i, slot = src.at(k)
    c.check('slot k of the pass is cell k', s_eq(i, k))
    recs = [e for e in sub if e[0] == 'shp.record']
    shapes = [e for e in sub if e[0] == 'shp.shape']
    hole = mk_bool(polys.hole(zint(k)))
    if c.branch(zint(hole) if False else hole.z):
        c.check('a cell without a polygon writes nothing', not recs and not shapes)
        return w
    c.check('a cell with a polygon writes exactly one record and one shape', len(recs) == 1 and len(shapes) == 1)
    if len(recs) != 1 or len(shapes) != 1:
        raise PathEnd()
    c.check('record first, then its shape (pyshp pairs them by position)', sub.index(recs[0]) < sub.index(shapes[0]))
    stored = recs[0][2]
    p = _poly_of(shapes[0][2])
    c.check('the shape is the polygon of cell k itself', p is not None and s_eq(p.n, k))
    c.check("the stored 'linear_ind' field is the linear index of the cell whose polygon the shape holds", s_eq(stored.get('linear_ind'), k))
    ftype, fsize, fdec = w.sizes.get('linear_ind', (None, None, None))
    wide = isinstance(fsize, int) and (fsize >= 19 or mk_bool(zint(k) < 10 ** fsize))
    c.check('the numeric dbf field is wide enough for this linear index (pyshp cuts wider numbers silently)', wide if not isinstance(fsize, int) or fsize < 19 else True)
    idx = stored.get('index')
    c.check("the stored 'index' field is the JSON text of the native index of that cell",
            isinstance(idx, BytesOf) and idx.what == 'json' and _same_index(c, idx.payload, _native_index(ds, conv_name, k)))
    return w


def scn_shapefile(c, ci):
    it, ds, conv, conv_name = _setup(c, ci)
    target = PathModel(OpaqueValue('target'))
    w = _shp_check(c, it, ds, conv, conv_name, (target,), {})
    c.check('the writer is opened on the target given as text', len(w.a) == 1 and isinstance(w.a[0], str))
    writes = [e for e in c.events if e[0] == 'file.write']
    c.check('the projection of the data CRS is written next to it', len(writes) == 1 and str(writes[0][1][0]).endswith('.prj'))


def scn_shapefile_parts(c):
    it, ds, conv, conv_name = _setup(c, 0)
    shp, shx, dbf = OpaqueValue('shp'), OpaqueValue('shx'), OpaqueValue('dbf')
    w = _shp_check(c, it, ds, conv, conv_name, (), {'shp': shp, 'shx': shx, 'dbf': dbf})
    c.check('the component files are handed to the writer', w.kw.get('shp') is shp and w.kw.get('shx') is shx and w.kw.get('dbf') is dbf)
    c.check('no projection file is invented without a target', not [e for e in c.events if e[0] == 'file.write'])


def scn_wk(c, ci):
    it, ds, conv, conv_name = _setup(c, ci)
    polys = abstract_polygons(conv)
    for fmt, fname, mode in (('wkt', 'write_wkt', 'w'), ('wkb', 'write_wkb', 'wb')):
        n0 = len(c.events)
        path = PathModel(OpaqueValue('path_' + fmt))
        expect_ok(c, f'{fname} returns', lambda: call(it, fn(it, MOD, fname), ds, path))
        ev = c.events[n0:]
        opens = [e for e in ev if e[0] == 'open']
        writes = [e for e in ev if e[0] == 'file.write']
        c.check(f'{fname}: the path is opened once in mode {mode!r}', len(opens) == 1 and opens[0][1][0] is path and tuple(opens[0][1][1:]) == (mode,))
        c.check(f'{fname}: one write', len(writes) == 1)
        if len(writes) != 1:
            raise PathEnd()
        s = writes[0][2]
        c.check(f'{fname}: what is written is the {fmt.upper()} serialisation of a MultiPolygon', isinstance(s, Serialised) and s.fmt == fmt and isinstance(s.geom, MultiPoly))
        if not (isinstance(s, Serialised) and isinstance(s.geom, MultiPoly)):
            raise PathEnd()
        if fmt == 'wkt':
            rp = s.kw.get('rounding_precision', s.a[0] if s.a else 6)
            # SHAPELY-TO-WKT: the default (6) rounds; -1 ("full precision") and anything below 20 write at most 16-17 significant digits and
            # lose the last place of about one double in ten; from 20 decimal places on GEOS writes the shortest exact representation
            c.check('write_wkt: coordinates are written exactly (rounding_precision >= 20), not rounded', isinstance(rp, int) and rp >= 20)
            c.check('write_wkt: no trimming / dimension options that change coordinates', s.kw.get('output_dimension', 3) >= 2)
        if fmt == 'wkb':
            c.check('write_wkb: no option that changes or drops coordinates (plain binary, all dimensions)', not s.a and set(s.kw) <= {'include_srid', 'byte_order', 'flavor'} )
        _members_are_cells_in_order(c, s.geom.members, polys, f'{fname} members', lambda m: None if _poly_of(m) is None else _poly_of(m).n)


NATIVE = {'': 'export_roundtrip'}
