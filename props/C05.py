"""C05 -- index and point selection return the stored values, complete and in order.

Under contract (real bodies): DimensionConvention.selector_for_indexes, Convention.select_indexes / select_index /
select_points, drop_geometry (+ overrides), get_all_geometry_names, utils.extract_vars, find_unused_dimension,
point_extraction.extract_points, NonIntersectingPoints.
Index lists have a concrete length (1..3) and *symbolic entries* (so repeats and every order are covered); values are of an
uninterpreted sort (bit-exact by construction, missing values included).  Point lookups go through the contract of
get_index_for_point (verified under C04): each point independently hits some cell or misses.
extract_dataframe (+ _dataframe_to_dataset) runs on a table model (pyvc/lib/pandas_.py, PD-FRAME) of 1..3 rows with symbolic cells; the
merge with the extracted points goes through XR-MERGE-ALIGN (inner / outer join over increasing integer labels, NA fill).
"""
from __future__ import annotations

import itertools

import z3

from contracts import inputs
from pyvc import core
from pyvc.api import (PathEnd, attr, call, cls, expect_ok, expect_raise, fn, method, mk_bool, mk_int, new_interp, outcome,
                      s_and, s_eq, s_implies, s_not, sym_array, sym_size, truthy, zint)
from pyvc.contract import Contract
from pyvc.core import GeomSort, SVal
from pyvc.interp import Obj, exc_matches
from pyvc.lib.stdlib import choice
from props.C11 import _accessors, _entry_points

from props._contracts import lookup_contract_scenarios, scn_lookup_contract  # noqa: F401

PROPERTY = 'C05'

# (convention, builder kwargs, extra variables, kinds to select on)
CONFIGS = [
    ('CFGrid1D', {'bounds': True}, [('temp', ('t', 'lat', 'lon')), ('flip', ('lon', 't', 'lat')), ('scalar', ('t',)), ('count', ('lat', 'lon'))], ['face']),
    ('CFGrid2D', {'bounds': True}, [('temp', ('t', 'j', 'i')), ('flip', ('i', 'j')), ('scalar', ('t',))], ['face']),
    ('ShocSimple', {'bounds': True}, [('temp', ('t', 'k', 'j', 'i')), ('scalar', ('t',))], ['face']),
    ('ShocStandard', {}, [('eta', ('t', 'j_centre', 'i_centre')), ('u1', ('t', 'j_left', 'i_left')), ('u2', ('i_back', 'j_back')),
                          ('flag', ('j_node', 'i_node')), ('scalar', ('t',))], ['face', 'left', 'back', 'node']),
    ('UGrid', {'edges': 'both'}, [('temp', ('t', 'nface')), ('flip', ('nface', 't')), ('ev', ('nedge',)), ('nv', ('t', 'nnode')), ('scalar', ('t',))],
     ['face', 'edge', 'node']),
]


def scenarios(tier):
    out = []
    for ci, (conv, kw, extra, kinds) in enumerate(CONFIGS):
        for kind in kinds:
            for k in ((1, 2) if tier == 'quick' else (1, 2, 3)):
                out.append({'name': f'select_indexes[{conv}.{kind}, {k} indexes]', 'fn': 'scn_select', 'kwargs': {'ci': ci, 'kind': kind, 'k': k}})
            out.append({'name': f'select_index[{conv}.{kind}]', 'fn': 'scn_select_one', 'kwargs': {'ci': ci, 'kind': kind}})
            out.append({'name': f'selection after an earlier selection and an in-place change[{conv}.{kind}]', 'fn': 'scn_select_history', 'kwargs': {'ci': ci, 'kind': kind}})
        out.append({'name': f'refusals[{conv}]', 'fn': 'scn_refusals', 'kwargs': {'ci': ci}})
        for policy in ('error', 'drop'):
            for k in (1, 2, 3):
                out.append({'name': f'extract_points[{conv}, {k} points, {policy}]', 'fn': 'scn_points', 'kwargs': {'ci': ci, 'k': k, 'policy': policy}})
        for policy in ('error', 'drop', 'fill'):
            for k in (1, 2, 3):
                for index in (('range', 'shifted') if k == 2 or tier != 'quick' else ('shifted',)):
                    out.append({'name': f'extract_dataframe[{conv}, {k} rows, {policy}, index {index}]', 'fn': 'scn_dataframe',
                                'kwargs': {'ci': ci, 'k': k, 'policy': policy, 'index': index}})
    out += lookup_contract_scenarios()        # the contract of get_index_for_point the point scenarios rely on, re-verified here
    return out


def _setup(c, ci, use=()):
    conv_name, kw, extra, kinds = CONFIGS[ci]
    it = new_interp(use=use)
    ds, conv = inputs.make_convention(it, c, conv_name, extra=extra, **kw)
    ds.attrs['Conventions'] = ds.attrs.get('Conventions', 'CF-1.6')
    return it, ds, conv, conv_name


def _sym_index(c, shape, tag):
    comps = []
    for d, n in enumerate(shape):
        v = c.fresh_int(f'{tag}_{d}')
        c.assume(v >= 0)
        c.assume(v < n)
        comps.append(v)
    return comps


def _check_selection(c, it, ds, conv, conv_name, res, kind, comps_list, index_dim, drop_geometry=True, squeezed=False):
    geometry = set(method(it, conv, 'get_all_geometry_names'))
    kdims = tuple(ds.info['dims'][kind])
    coord_names = ds._coord_names
    for name, v in ds._vars.items():
        is_geom = name in geometry
        uses = bool(set(v.dims) & set(kdims))
        if name in coord_names:
            if is_geom and drop_geometry:
                c.check(f'geometry coordinate {name!r} is absent from the selection', name not in res._vars)
            continue
        expect_present = uses and not (is_geom and drop_geometry)
        c.check(f'variable {name!r} is {"present" if expect_present else "absent"} (kept iff it is defined on the selected grid and is not geometry)',
                (name in res._vars) == expect_present)
        if not expect_present or name not in res._vars:
            continue
        r = res._vars[name]
        others = tuple(d for d in v.dims if d not in kdims)
        full = set(kdims) <= set(v.dims)
        if not full:
            continue
        want_dims = set(others) | (set() if squeezed else {index_dim})
        c.check(f'{name!r}: every other dimension is intact and the grid dimensions are replaced by the request dimension',
                set(r.dims) == want_dims and len(r.dims) == len(want_dims))
        if set(r.dims) != want_dims:
            continue
        sizes = dict(zip(v.dims, v.arr.shape))
        o = {}
        for d in others:
            q = c.fresh_int(f'o_{name}_{d}')
            c.assume(q >= 0)
            c.assume(q < sizes[d])
            o[d] = q
        if not squeezed:
            nrows = r.arr.shape[r.dims.index(index_dim)]
            if isinstance(nrows, int) and nrows != len(comps_list):
                c.check(f'{name!r}: one entry per request', False, note=f'{nrows} entries for {len(comps_list)} requests')
                continue
        for p, comps in enumerate(comps_list):
            if comps is None:
                # a row kept for a point outside the model ('fill'): missing data
                ridx = tuple(o[d] if d in o else p for d in r.dims)
                c.check(f'{name!r}: entry {p} (a point outside the model) holds missing data', _is_na(r.arr.fn(ridx)))
                continue
            cell = dict(zip(kdims, comps))
            src = tuple(o[d] if d in o else cell[d] for d in v.dims)
            ridx = tuple(o[d] if d in o else p for d in r.dims)
            got, want = r.arr.fn(ridx), v.arr.fn(src)
            same = got.same_bits(want) if hasattr(got, 'same_bits') else s_eq(got, want)
            c.check(f'{name!r}: entry {p} of the selection is exactly the value stored at the requested cell {p}', same)
            c.check(f'{name!r}: one entry per request', squeezed or s_eq(r.arr.shape[r.dims.index(index_dim)], len(comps_list)))
        c.check(f'{name!r}: attributes kept', r.attrs == v.attrs)


def _is_na(v):
    from pyvc.lib.floats import NANV
    if v is NANV:
        return True
    kind = getattr(v, 'kind', None)
    return kind is not None and kind is getattr(NANV, 'kind', object())


def scn_select(c, ci, kind, k):
    it, ds, conv, conv_name = _setup(c, ci)
    km = inputs.kind_member(it, conv_name, kind)
    shape = ds.info['shape'][kind]
    comps_list = [_sym_index(c, shape, f'idx{p}') for p in range(k)]
    natives = [inputs.native_index(conv_name, km, comps) for comps in comps_list]
    from pyvc.api import check_unmodified, snapshot
    snap = snapshot(ds)
    res = expect_ok(c, 'select_indexes returns', lambda: method(it, conv, 'select_indexes', natives, index_dimension='request'))
    check_unmodified(c, ds, snap, 'the dataset selected from')
    _check_selection(c, it, ds, conv, conv_name, res, kind, comps_list, 'request')
    res2 = expect_ok(c, 'select_indexes with drop_geometry=False returns', lambda: method(it, conv, 'select_indexes', natives, drop_geometry=False))
    _check_selection(c, it, ds, conv, conv_name, res2, kind, comps_list, 'index', drop_geometry=False)


def scn_select_history(c, ci, kind):
    """A selection made after an earlier selection and an in-place change of the dataset (a variable replaced, one added) returns
    what the dataset holds now: nothing selected earlier is remembered."""
    from pyvc.api import add_var
    it, ds, conv, conv_name = _setup(c, ci)
    km = inputs.kind_member(it, conv_name, kind)
    shape = ds.info['shape'][kind]
    first = _sym_index(c, shape, 'first')
    expect_ok(c, 'an earlier selection returns', lambda: method(it, conv, 'select_indexes', [inputs.native_index(conv_name, km, first)]))
    expect_ok(c, 'an earlier single selection returns', lambda: method(it, conv, 'select_index', inputs.native_index(conv_name, km, first)))
    kdims = tuple(ds.info['dims'][kind])
    geometry = set(method(it, conv, 'get_all_geometry_names'))
    victim = next((n for n, v in ds._vars.items() if n not in ds._coord_names and n not in geometry and set(kdims) <= set(v.dims)), None)
    if victim is not None:
        old = ds._vars[victim]
        add_var(ds, victim, old.dims, sym_array(c, 'replaced', old.arr.shape, 'V'), dict(old.attrs))      # dataset[victim] = other values
    sizes = ds._sizes()
    add_var(ds, 'added_later', kdims, sym_array(c, 'added', tuple(sizes[d] for d in kdims), 'V'), {'long_name': 'added after the first selection'})
    comps = _sym_index(c, shape, 'idx')
    res = expect_ok(c, 'select_indexes after the change returns', lambda: method(it, conv, 'select_indexes', [inputs.native_index(conv_name, km, comps)], index_dimension='request'))
    _check_selection(c, it, ds, conv, conv_name, res, kind, [comps], 'request')
    res1 = expect_ok(c, 'select_index after the change returns', lambda: method(it, conv, 'select_index', inputs.native_index(conv_name, km, comps)))
    _check_selection(c, it, ds, conv, conv_name, res1, kind, [comps], 'index', squeezed=True)


def scn_select_one(c, ci, kind):
    it, ds, conv, conv_name = _setup(c, ci)
    km = inputs.kind_member(it, conv_name, kind)
    shape = ds.info['shape'][kind]
    comps = _sym_index(c, shape, 'idx')
    res = expect_ok(c, 'select_index returns', lambda: method(it, conv, 'select_index', inputs.native_index(conv_name, km, comps)))
    _check_selection(c, it, ds, conv, conv_name, res, kind, [comps], 'index', squeezed=True)


def scn_refusals(c, ci):
    it, ds, conv, conv_name = _setup(c, ci)
    expect_raise(c, 'an empty index list is refused with ValueError', lambda: method(it, conv, 'select_indexes', []), ValueError)
    kinds = CONFIGS[ci][3]
    if len(kinds) > 1:
        a = inputs.native_index(conv_name, inputs.kind_member(it, conv_name, kinds[0]), [0] * len(ds.info['shape'][kinds[0]]))
        b = inputs.native_index(conv_name, inputs.kind_member(it, conv_name, kinds[1]), [0] * len(ds.info['shape'][kinds[1]]))
        for n_ in list(ds.info['shape'][kinds[0]]) + list(ds.info['shape'][kinds[1]]):
            c.assume(n_ >= 1)
        expect_raise(c, 'indexes of different grid kinds in one request are refused with ValueError',
                     lambda: method(it, conv, 'select_indexes', [a, b]), ValueError)


# --- points -----------------------------------------------------------------------------------------------------------------


def _lookup_contract(ds, conv_name):
    """get_index_for_point: either None (miss) or an item naming some face cell (contract verified under C04)."""
    def post(it, a):
        c = core.ctx()
        c.event('call', 'get_index_for_point', a['point'])
        if not choice('point_hits'):
            return None
        shape = ds.info['shape']['face']
        comps = _sym_index(c, shape, 'hit')
        km = inputs.kind_member(it, conv_name if conv_name != 'ShocSimple' else 'CFGrid2D', 'face')
        from pyvc.api import cls as _cls
        Item = _cls(it, 'emsarray.conventions._base', 'SpatialIndexItem')
        lin = 0
        for q, n_ in zip(comps, shape):
            lin = lin * n_ + q
        item = it.instantiate(Item, [], {'linear_index': lin, 'index': inputs.native_index(conv_name, km, comps), 'polygon': None})
        hits = getattr(c, 'lookup_hits', None)
        if hits is None:
            hits = c.lookup_hits = {}
        hits[id(a['point'])] = comps
        return item
    return Contract('emsarray.conventions._base', 'Convention.get_index_for_point', post=post, verified_by='C04')


def scn_points(c, ci, k, policy):
    it, ds, conv, conv_name = _setup(c, ci)
    lk = _lookup_contract(ds, conv_name)
    it.contracts[lk.key] = lk
    c.entry_points = _entry_points(it)
    _accessors(c, it)
    # bind our convention object to the dataset so that dataset.ems is this convention
    method(it, conv, 'bind')
    ep = fn(it, 'emsarray.operations.point_extraction', 'extract_points')
    NIP = cls(it, 'emsarray.operations.point_extraction', 'NonIntersectingPoints')
    pts = [SVal(z3.FreshConst(GeomSort, f'pt{p}')) for p in range(k)]
    kind_, val = outcome(lambda: call(it, ep, ds, pts, point_dimension='station', missing_points=policy))
    hits = getattr(c, 'lookup_hits', {})
    looked = [e for e in c.events if e[0] == 'call' and e[1] == 'get_index_for_point']
    c.check('every requested point is looked up once, in request order', [e[2] for e in looked] == pts)
    miss = [p for p in range(k) if id(pts[p]) not in hits]
    kept = [p for p in range(k) if id(pts[p]) in hits]
    if policy == 'error' and miss:
        c.check("policy 'error': points outside the model raise NonIntersectingPoints", kind_ == 'raise' and exc_matches(val, NIP))
        if kind_ == 'raise' and exc_matches(val, NIP):
            idx = val.attrs.get('indexes')
            got = [idx.fn((q,)) for q in range(idx.shape[0])] if hasattr(idx, 'fn') and isinstance(idx.shape[0], int) else None
            c.check("policy 'error' names exactly the missing points (positions, ascending)", got == miss)
            c.check("policy 'error' carries exactly those points", list(val.attrs.get('points')) == [pts[p] for p in miss])
        return
    if not kept:
        c.check("policy 'drop' with every point outside the model returns an empty selection (it is not an error)", kind_ == 'return',
                note=f'{kind_}: {val!r}')
        return
    c.check('extract_points returns when at least one point hits', kind_ == 'return', note=f'{kind_}: {val!r}')
    if kind_ != 'return':
        return
    res = val
    comps_list = [hits[id(pts[p])] for p in kept]
    _check_selection(c, it, ds, conv, conv_name, res, 'face', comps_list, 'station')
    c.check('the request dimension carries a coordinate', 'station' in res._vars and 'station' in res._coord_names)
    if 'station' in res._vars:
        lab = res._vars['station']
        c.check("kept entries are labelled with their original positions in the request ('drop' removes exactly the misses)",
                lab.dims == ('station',) and isinstance(lab.arr.shape[0], int) and
                [lab.arr.fn((q,)) for q in range(lab.arr.shape[0])] == kept)


def scn_dataframe(c, ci, k, policy, index):
    """extract_dataframe: a table of k rows (longitude, latitude, two more columns), any row hitting or missing the model."""
    from pyvc.lib.pandas_ import DataFrameModel
    from pyvc.lib.shapely_ import _fn
    it, ds, conv, conv_name = _setup(c, ci)
    lk = _lookup_contract(ds, conv_name)
    it.contracts[lk.key] = lk
    c.entry_points = _entry_points(it)
    _accessors(c, it)
    method(it, conv, 'bind')
    ed = fn(it, 'emsarray.operations.point_extraction', 'extract_dataframe')
    NIP = cls(it, 'emsarray.operations.point_extraction', 'NonIntersectingPoints')
    lon = sym_array(c, 'tab_lon', (k,), 'real')
    lat = sym_array(c, 'tab_lat', (k,), 'real')
    name = sym_array(c, 'tab_name', (k,), 'V')
    w = sym_array(c, 'tab_w', (k,), 'V')
    labels = {'range': list(range(k)), 'shifted': [10 + p for p in range(k)]}[index]
    df = DataFrameModel({'name': name, 'x': lon, 'y': lat, 'w': w}, labels)
    kind_, val = outcome(lambda: call(it, ed, ds, df, ('x', 'y'), point_dimension='station', missing_points=policy))
    hits = getattr(c, 'lookup_hits', {})
    looked = [e for e in c.events if e[0] == 'call' and e[1] == 'get_index_for_point']
    pxy = _fn('point_xy', z3.RealSort(), z3.RealSort(), GeomSort)

    def num(v):
        return core.zreal(v.val if hasattr(v, 'val') else v)
    c.check('row p of the table is looked up as the point (longitude column, latitude column) of row p, once, in row order',
            len(looked) == k and s_and(*[mk_bool(looked[p][2].z == pxy(num(lon.fn((p,))), num(lat.fn((p,))))) for p in range(len(looked))]))
    if len(looked) != k:
        return
    pts = [e[2] for e in looked]
    miss = [p for p in range(k) if id(pts[p]) not in hits]
    kept = [p for p in range(k) if id(pts[p]) in hits]
    if policy == 'error' and miss:
        c.check("policy 'error': rows outside the model raise NonIntersectingPoints", kind_ == 'raise' and exc_matches(val, NIP))
        if kind_ == 'raise' and exc_matches(val, NIP):
            idx = val.attrs.get('indexes')
            got = [idx.fn((q,)) for q in range(idx.shape[0])] if hasattr(idx, 'fn') and isinstance(idx.shape[0], int) else None
            c.check("policy 'error' names exactly the rows outside the model (positions, ascending)", got == miss)
        return
    if not kept:
        c.check(f"policy {policy!r} with every row outside the model returns ({'every row with missing data' if policy == 'fill' else 'an empty selection'}; it is not an error)",
                kind_ == 'return', note=f'{kind_}: {val!r}')
        return
    c.check('extract_dataframe returns when at least one row hits', kind_ == 'return', note=f'{kind_}: {val!r}')
    if kind_ != 'return':
        return
    res = val
    rows = list(range(k)) if policy == 'fill' else kept
    comps_list = [hits.get(id(pts[p])) for p in rows]
    _check_selection(c, it, ds, conv, conv_name, res, 'face', comps_list, 'station')
    lab = res._vars.get('station')
    c.check("the rows are labelled with their positions in the table: 'drop' removes exactly the rows outside the model, 'fill' keeps every row",
            lab is not None and lab.dims == ('station',) and isinstance(lab.arr.shape[0], int)
            and [lab.arr.fn((q,)) for q in range(lab.arr.shape[0])] == rows and 'station' in res._coord_names)
    for col, src in (('name', name), ('w', w), ('x', lon), ('y', lat)):
        v = res._vars.get(col)
        ok = v is not None and v.dims == ('station',) and isinstance(v.arr.shape[0], int) and v.arr.shape[0] == len(rows)
        c.check(f'column {col!r} of the table is carried along, one entry per kept row', ok)
        if ok:
            for q, p in enumerate(rows):
                got, want = v.arr.fn((q,)), src.fn((p,))
                c.check(f"column {col!r}: entry {q} is the value of table row {p} (rows are paired with the points by position, whatever the table's index)",
                        got.same_bits(want) if hasattr(got, 'same_bits') else s_eq(got, want))
    c.check('the coordinate columns become coordinates', {'x', 'y'} <= res._coord_names and 'name' not in res._coord_names)
    if 'x' in res._vars and 'y' in res._vars:
        c.check('the coordinate columns are described as longitude and latitude', res._vars['x'].attrs.get('standard_name') == 'longitude'
                and res._vars['y'].attrs.get('standard_name') == 'latitude' and res._vars['x'].attrs.get('units') == 'degrees_east'
                and res._vars['y'].attrs.get('units') == 'degrees_north')
    c.check('the table is not modified', df.index.labels == labels and df.index.name is None and list(df.columns_) == ['name', 'x', 'y', 'w'])


NATIVE = {'extract_points': 'points', 'extract_dataframe': 'dataframe', '': 'selection'}
