"""C05 -- index and point selection return the stored values, complete and in order.

Under contract (real bodies): DimensionConvention.selector_for_indexes, Convention.select_indexes / select_index /
select_points, drop_geometry (+ overrides), get_all_geometry_names, utils.extract_vars, find_unused_dimension,
point_extraction.extract_points, NonIntersectingPoints.
Index lists have a concrete length (1..3) and *symbolic entries* (so repeats and every order are covered); values are of an
uninterpreted sort (bit-exact by construction, missing values included).  Point lookups go through the contract of
get_index_for_point (verified under C04): each point independently hits some cell or misses.
extract_dataframe (pandas merge) is carried by the bounded native stand-in.
"""
from __future__ import annotations

import itertools

import z3

from contracts import inputs
from pyvc import core
from pyvc.api import (PathEnd, attr, call, cls, expect_ok, expect_raise, fn, method, mk_bool, mk_int, new_interp, outcome,
                      s_and, s_eq, s_implies, s_not, sym_array, sym_size, truthy, zint)
from pyvc.contract import Contract
from pyvc.core import GeomSort, SVal
from pyvc.interp import Obj, exc_matches
from pyvc.lib.stdlib import choice
from props.C11 import _accessors, _entry_points

from props._contracts import lookup_contract_scenarios, scn_lookup_contract  # noqa: F401

PROPERTY = 'C05'

# (convention, builder kwargs, extra variables, kinds to select on)
CONFIGS = [
    ('CFGrid1D', {'bounds': True}, [('temp', ('t', 'lat', 'lon')), ('flip', ('lon', 't', 'lat')), ('scalar', ('t',)), ('count', ('lat', 'lon'))], ['face']),
    ('CFGrid2D', {'bounds': True}, [('temp', ('t', 'j', 'i')), ('flip', ('i', 'j')), ('scalar', ('t',))], ['face']),
    ('ShocSimple', {'bounds': True}, [('temp', ('t', 'k', 'j', 'i')), ('scalar', ('t',))], ['face']),
    ('ShocStandard', {}, [('eta', ('t', 'j_centre', 'i_centre')), ('u1', ('t', 'j_left', 'i_left')), ('u2', ('i_back', 'j_back')),
                          ('flag', ('j_node', 'i_node')), ('scalar', ('t',))], ['face', 'left', 'back', 'node']),
    ('UGrid', {'edges': 'both'}, [('temp', ('t', 'nface')), ('flip', ('nface', 't')), ('ev', ('nedge',)), ('nv', ('t', 'nnode')), ('scalar', ('t',))],
     ['face', 'edge', 'node']),
]


def scenarios(tier):
    out = []
    for ci, (conv, kw, extra, kinds) in enumerate(CONFIGS):
        for kind in kinds:
            for k in ((1, 2) if tier == 'quick' else (1, 2, 3)):
                out.append({'name': f'select_indexes[{conv}.{kind}, {k} indexes]', 'fn': 'scn_select', 'kwargs': {'ci': ci, 'kind': kind, 'k': k}})
            out.append({'name': f'select_index[{conv}.{kind}]', 'fn': 'scn_select_one', 'kwargs': {'ci': ci, 'kind': kind}})
        out.append({'name': f'refusals[{conv}]', 'fn': 'scn_refusals', 'kwargs': {'ci': ci}})
        for policy in ('error', 'drop'):
            for k in (1, 2, 3):
                out.append({'name': f'extract_points[{conv}, {k} points, {policy}]', 'fn': 'scn_points', 'kwargs': {'ci': ci, 'k': k, 'policy': policy}})
    out += lookup_contract_scenarios()        # the contract of get_index_for_point the point scenarios rely on, re-verified here
    return out


def _setup(c, ci, use=()):
    conv_name, kw, extra, kinds = CONFIGS[ci]
    it = new_interp(use=use)
    ds, conv = inputs.make_convention(it, c, conv_name, extra=extra, **kw)
    ds.attrs['Conventions'] = ds.attrs.get('Conventions', 'CF-1.6')
    return it, ds, conv, conv_name


def _sym_index(c, shape, tag):
    comps = []
    for d, n in enumerate(shape):
        v = c.fresh_int(f'{tag}_{d}')
        c.assume(v >= 0)
        c.assume(v < n)
        comps.append(v)
    return comps


def _check_selection(c, it, ds, conv, conv_name, res, kind, comps_list, index_dim, drop_geometry=True, squeezed=False):
    geometry = set(method(it, conv, 'get_all_geometry_names'))
    kdims = tuple(ds.info['dims'][kind])
    coord_names = ds._coord_names
    for name, v in ds._vars.items():
        is_geom = name in geometry
        uses = bool(set(v.dims) & set(kdims))
        if name in coord_names:
            if is_geom and drop_geometry:
                c.check(f'geometry coordinate {name!r} is absent from the selection', name not in res._vars)
            continue
        expect_present = uses and not (is_geom and drop_geometry)
        c.check(f'variable {name!r} is {"present" if expect_present else "absent"} (kept iff it is defined on the selected grid and is not geometry)',
                (name in res._vars) == expect_present)
        if not expect_present or name not in res._vars:
            continue
        r = res._vars[name]
        others = tuple(d for d in v.dims if d not in kdims)
        full = set(kdims) <= set(v.dims)
        if not full:
            continue
        want_dims = set(others) | (set() if squeezed else {index_dim})
        c.check(f'{name!r}: every other dimension is intact and the grid dimensions are replaced by the request dimension',
                set(r.dims) == want_dims and len(r.dims) == len(want_dims))
        if set(r.dims) != want_dims:
            continue
        sizes = dict(zip(v.dims, v.arr.shape))
        o = {}
        for d in others:
            q = c.fresh_int(f'o_{name}_{d}')
            c.assume(q >= 0)
            c.assume(q < sizes[d])
            o[d] = q
        for p, comps in enumerate(comps_list):
            cell = dict(zip(kdims, comps))
            src = tuple(o[d] if d in o else cell[d] for d in v.dims)
            ridx = tuple(o[d] if d in o else p for d in r.dims)
            got, want = r.arr.fn(ridx), v.arr.fn(src)
            same = got.same_bits(want) if hasattr(got, 'same_bits') else s_eq(got, want)
            c.check(f'{name!r}: entry {p} of the selection is exactly the value stored at the requested cell {p}', same)
            c.check(f'{name!r}: one entry per request', squeezed or s_eq(r.arr.shape[r.dims.index(index_dim)], len(comps_list)))
        c.check(f'{name!r}: attributes kept', r.attrs == v.attrs)


def scn_select(c, ci, kind, k):
    it, ds, conv, conv_name = _setup(c, ci)
    km = inputs.kind_member(it, conv_name, kind)
    shape = ds.info['shape'][kind]
    comps_list = [_sym_index(c, shape, f'idx{p}') for p in range(k)]
    natives = [inputs.native_index(conv_name, km, comps) for comps in comps_list]
    from pyvc.api import check_unmodified, snapshot
    snap = snapshot(ds)
    res = expect_ok(c, 'select_indexes returns', lambda: method(it, conv, 'select_indexes', natives, index_dimension='request'))
    check_unmodified(c, ds, snap, 'the dataset selected from')
    _check_selection(c, it, ds, conv, conv_name, res, kind, comps_list, 'request')
    res2 = expect_ok(c, 'select_indexes with drop_geometry=False returns', lambda: method(it, conv, 'select_indexes', natives, drop_geometry=False))
    _check_selection(c, it, ds, conv, conv_name, res2, kind, comps_list, 'index', drop_geometry=False)


def scn_select_one(c, ci, kind):
    it, ds, conv, conv_name = _setup(c, ci)
    km = inputs.kind_member(it, conv_name, kind)
    shape = ds.info['shape'][kind]
    comps = _sym_index(c, shape, 'idx')
    res = expect_ok(c, 'select_index returns', lambda: method(it, conv, 'select_index', inputs.native_index(conv_name, km, comps)))
    _check_selection(c, it, ds, conv, conv_name, res, kind, [comps], 'index', squeezed=True)


def scn_refusals(c, ci):
    it, ds, conv, conv_name = _setup(c, ci)
    expect_raise(c, 'an empty index list is refused with ValueError', lambda: method(it, conv, 'select_indexes', []), ValueError)
    kinds = CONFIGS[ci][3]
    if len(kinds) > 1:
        a = inputs.native_index(conv_name, inputs.kind_member(it, conv_name, kinds[0]), [0] * len(ds.info['shape'][kinds[0]]))
        b = inputs.native_index(conv_name, inputs.kind_member(it, conv_name, kinds[1]), [0] * len(ds.info['shape'][kinds[1]]))
        for n_ in list(ds.info['shape'][kinds[0]]) + list(ds.info['shape'][kinds[1]]):
            c.assume(n_ >= 1)
        expect_raise(c, 'indexes of different grid kinds in one request are refused with ValueError',
                     lambda: method(it, conv, 'select_indexes', [a, b]), ValueError)


# --- points -----------------------------------------------------------------------------------------------------------------


def _lookup_contract(ds, conv_name):
    """get_index_for_point: either None (miss) or an item naming some face cell (contract verified under C04)."""
    def post(it, a):
        c = core.ctx()
        c.event('call', 'get_index_for_point', a['point'])
        if not choice('point_hits'):
            return None
        shape = ds.info['shape']['face']
        comps = _sym_index(c, shape, 'hit')
        km = inputs.kind_member(it, conv_name if conv_name != 'ShocSimple' else 'CFGrid2D', 'face')
        from pyvc.api import cls as _cls
        Item = _cls(it, 'emsarray.conventions._base', 'SpatialIndexItem')
        lin = 0
        for q, n_ in zip(comps, shape):
            lin = lin * n_ + q
        item = it.instantiate(Item, [], {'linear_index': lin, 'index': inputs.native_index(conv_name, km, comps), 'polygon': None})
        hits = getattr(c, 'lookup_hits', None)
        if hits is None:
            hits = c.lookup_hits = {}
        hits[id(a['point'])] = comps
        return item
    return Contract('emsarray.conventions._base', 'Convention.get_index_for_point', post=post, verified_by='C04')


def scn_points(c, ci, k, policy):
    it, ds, conv, conv_name = _setup(c, ci)
    lk = _lookup_contract(ds, conv_name)
    it.contracts[lk.key] = lk
    c.entry_points = _entry_points(it)
    _accessors(c, it)
    # bind our convention object to the dataset so that dataset.ems is this convention
    method(it, conv, 'bind')
    ep = fn(it, 'emsarray.operations.point_extraction', 'extract_points')
    NIP = cls(it, 'emsarray.operations.point_extraction', 'NonIntersectingPoints')
    pts = [SVal(z3.FreshConst(GeomSort, f'pt{p}')) for p in range(k)]
    kind_, val = outcome(lambda: call(it, ep, ds, pts, point_dimension='station', missing_points=policy))
    hits = getattr(c, 'lookup_hits', {})
    looked = [e for e in c.events if e[0] == 'call' and e[1] == 'get_index_for_point']
    c.check('every requested point is looked up once, in request order', [e[2] for e in looked] == pts)
    miss = [p for p in range(k) if id(pts[p]) not in hits]
    kept = [p for p in range(k) if id(pts[p]) in hits]
    if policy == 'error' and miss:
        c.check("policy 'error': points outside the model raise NonIntersectingPoints", kind_ == 'raise' and exc_matches(val, NIP))
        if kind_ == 'raise' and exc_matches(val, NIP):
            idx = val.attrs.get('indexes')
            got = [idx.fn((q,)) for q in range(idx.shape[0])] if hasattr(idx, 'fn') and isinstance(idx.shape[0], int) else None
            c.check("policy 'error' names exactly the missing points (positions, ascending)", got == miss)
            c.check("policy 'error' carries exactly those points", list(val.attrs.get('points')) == [pts[p] for p in miss])
        return
    if not kept:
        c.check("policy 'drop' with every point outside the model returns an empty selection (it is not an error)", kind_ == 'return',
                note=f'{kind_}: {val!r}')
        return
    c.check('extract_points returns when at least one point hits', kind_ == 'return', note=f'{kind_}: {val!r}')
    if kind_ != 'return':
        return
    res = val
    comps_list = [hits[id(pts[p])] for p in kept]
    _check_selection(c, it, ds, conv, conv_name, res, 'face', comps_list, 'station')
    c.check('the request dimension carries a coordinate', 'station' in res._vars and 'station' in res._coord_names)
    if 'station' in res._vars:
        lab = res._vars['station']
        c.check("kept entries are labelled with their original positions in the request ('drop' removes exactly the misses)",
                lab.dims == ('station',) and isinstance(lab.arr.shape[0], int) and
                [lab.arr.fn((q,)) for q in range(lab.arr.shape[0])] == kept)


NATIVE = {'extract_points': 'points', '': 'selection'}
