"""C12 -- ocean-floor extraction returns the deepest valid value of every water column.

Functions under contract (real bodies): operations.depth.ocean_floor, _find_ocean_floor_indexes, normalize_depth_variables (inline,
its own contract is C13), utils.dimensions_from_coords, name_to_data_array, extract_vars; Convention.ocean_floor is a one-line alias
checked natively.
Specification.  Physical depth of layer k is d(k) = sigma * z[k] (sigma = +1 positive down, -1 positive up), strictly monotonic in k.
The sea floor is static: layer k of column (y, x) is wet or dry for every float variable and every record (wet(k, y, x)); a dry
layer holds NaN, a wet one a finite value (A-FINITE-DATA); integer variables hold data everywhere.  For a variable v with the depth
dimension:  result[v][t, y, x] = v[t, K, y, x] where K is the wet layer of maximal d, NaN when no layer is wet.
Library contracts: XR-CUMSUM-SKIPNA, XR-ARGMAX-FIRST (lib/depthlib.py), XR-ISEL-POINTWISE, XR-MERGE-OVERRIDE, XR-DROP-DIMS.
Lemma cumsum-monotone is proved by induction (base / step obligations below).
"""
from __future__ import annotations

import itertools

import z3

from props.C13 import Depth
from pyvc import core
from pyvc.api import (FIN, PathEnd, SFloat, XDataArray, XDataset, add_var, call, expect_ok, expect_raise, fn, mk_bool, mk_int,
                      mk_real, new_interp, s_and, s_eq, s_implies, s_ite, s_not, s_or, sym_array, sym_size, zint, zreal)
from pyvc.lib.floats import NAN
from pyvc.lib.numpy_ import FLOAT64, INT64, NDArray

PROPERTY = 'C12'
LAYOUTS = {
    'tkyx': ('t', 'k', 'y', 'x'), 'ktyx': ('k', 't', 'y', 'x'), 'tyxk': ('t', 'y', 'x', 'k'), 'kyx': ('k', 'y', 'x'), 'tkn': ('t', 'k', 'n'),
    'ytkx': ('y', 't', 'k', 'x'),
}


def scenarios(tier):
    out = []
    for positive in ('up', 'down', 'absent'):
        for layout in ('tkyx', 'ktyx', 'tyxk', 'kyx', 'tkn', 'ytkx'):
            out.append({'name': f'ocean_floor[positive={positive},temp{LAYOUTS[layout]}]', 'fn': 'scn_floor', 'kwargs': {'positive': positive, 'layout': layout}})
    if tier == 'thorough':
        for positive in ('DOWN', 'Up', 'Down'):
            for layout in ('ktyx', 'tyxk', 'kyx', 'ytkx'):
                out.append({'name': f'ocean_floor[positive={positive},temp{LAYOUTS[layout]}]', 'fn': 'scn_floor', 'kwargs': {'positive': positive, 'layout': layout}})
        for positive in ('down', 'absent'):
            out.append({'name': f'ocean_floor[two depth coordinates on one dimension, positive={positive}]', 'fn': 'scn_floor',
                        'kwargs': {'positive': positive, 'layout': 'tkyx', 'second': 'shared'}})
            out.append({'name': f'ocean_floor[dimension coordinate k(k), positive={positive}, temp(k, t, y, x)]', 'fn': 'scn_floor',
                        'kwargs': {'positive': positive, 'layout': 'ktyx', 'dimcoord': True}})
    for given in ('tuple', 'iterator', 'generator'):
        out.append({'name': f'ocean_floor[depth coordinates given as a {given}]', 'fn': 'scn_floor', 'kwargs': {'positive': 'down', 'layout': 'tkyx', 'given': given}})
    out.append({'name': "ocean_floor[positive='DOWN' (CF: case-insensitive)]", 'fn': 'scn_floor', 'kwargs': {'positive': 'DOWN', 'layout': 'tkyx'}})
    out.append({'name': 'ocean_floor[no non-spatial variables given: records are columns of their own]', 'fn': 'scn_floor', 'kwargs': {'positive': 'up', 'layout': 'tkyx', 'nonspatial': False}})
    out.append({'name': 'ocean_floor[dimension coordinate k(k)]', 'fn': 'scn_floor', 'kwargs': {'positive': 'down', 'layout': 'tkyx', 'dimcoord': True}})
    out.append({'name': 'ocean_floor[two depth coordinates on one dimension]', 'fn': 'scn_floor', 'kwargs': {'positive': 'up', 'layout': 'tkyx', 'second': 'shared'}})
    out.append({'name': 'ocean_floor[two depth dimensions over one horizontal grid]', 'fn': 'scn_two_dims', 'kwargs': {}})
    out.append({'name': '_find_ocean_floor_indexes: last valid layer of every column', 'fn': 'scn_indexes', 'kwargs': {}})
    for conv_name in ('CFGrid1D', 'CFGrid2D', 'ShocSimple', 'ShocStandard', 'UGrid'):
        for as_coord in (True, False):
            out.append({'name': f'dataset.ems.ocean_floor hands every depth coordinate of the dataset to the reduction[{conv_name}, layer variables held as {"coordinates" if as_coord else "plain variables"}]',
                        'fn': 'scn_entry', 'kwargs': {'conv_name': conv_name, 'as_coord': as_coord}})
    return out


class Column:
    """wet(k, loc...) -- the static sea floor over the (normalised or stored) layer index"""

    def __init__(self, c, name, nloc):
        self.f = c.fresh_fn(name, *([z3.IntSort()] * (1 + nloc)), z3.BoolSort())

    def wet(self, k, loc):
        return mk_bool(self.f(zint(k), *[zint(i) for i in loc]))


def wet_array(c, name, dims, sizes, col, locdims, dtype='float'):
    """float array: NaN exactly on dry layers, finite elsewhere; int array: arbitrary integers"""
    shape = tuple(sizes[d] for d in dims)
    val = c.fresh_fn(name, *([z3.IntSort()] * len(dims)), z3.RealSort() if dtype == 'float' else z3.IntSort())

    def at(i):
        env = dict(zip(dims, i))
        t = val(*[zint(x) for x in i])
        if dtype != 'float':
            return mk_int(t)
        if 'k' not in env:
            return SFloat(FIN, mk_real(t))
        w = col.wet(env['k'], tuple(env[d] for d in locdims))
        return SFloat(mk_int(z3.If(w.z, FIN, NAN)), mk_real(t))
    return NDArray(shape, at, FLOAT64 if dtype == 'float' else INT64)


def _build(c, positive, layout, dimcoord=False, second=None):
    sizes = {'t': sym_size(c, 'nt', 1), 'k': sym_size(c, 'nk', 2), 'y': sym_size(c, 'ny', 0), 'x': sym_size(c, 'nx', 0), 'n': sym_size(c, 'nn', 0)}
    dims = LAYOUTS[layout]
    locdims = tuple(d for d in ('y', 'x', 'n') if d in dims)
    col = Column(c, 'wet', len(locdims))
    zname = 'k' if dimcoord else 'zc'
    dep = Depth(c, 'z', sizes['k'], sign={'absent': '+'}.get(positive))
    ds = XDataset(attrs={'title': 'model run'})
    zattrs = {'axis': 'Z', 'long_name': 'depth'}
    if positive != 'absent':
        zattrs['positive'] = positive
    add_var(ds, zname, ('k',), dep.arr(), zattrs, coord=True)
    add_var(ds, 'time', ('t',), sym_array(c, 'time', (sizes['t'],), 'real'), {'standard_name': 'time'}, coord=True)
    for d in locdims:
        add_var(ds, 'c' + d, (d,), sym_array(c, 'c' + d, (sizes[d],), 'real'), {'long_name': 'coordinate ' + d}, coord=True)
    add_var(ds, 'temp', dims, wet_array(c, 'temp', dims, sizes, col, locdims), {'units': 'degC'})
    dims2 = tuple(d for d in ('t', 'k') + locdims if d in ('k',) + locdims or d == 't')
    add_var(ds, 'salt', dims2, wet_array(c, 'salt', dims2, sizes, col, locdims), {'units': 'PSU'})
    # a static depth-resolved field (layer thickness, a climatology): the depth dimension and the horizontal ones, no time
    dims3 = ('k',) + locdims
    add_var(ds, 'thickness', dims3, wet_array(c, 'thickness', dims3, sizes, col, locdims), {'units': 'm'})
    add_var(ds, 'eta', ('t',) + locdims, sym_array(c, 'eta', tuple(sizes[d] for d in ('t',) + locdims), 'floatnan'), {'units': 'm'})
    add_var(ds, 'botz', locdims, sym_array(c, 'botz', tuple(sizes[d] for d in locdims), 'floatnan'), {'units': 'm'})
    add_var(ds, 'profile', ('t', 'k'), sym_array(c, 'profile', (sizes['t'], sizes['k']), 'floatnan'), {'note': 'no horizontal dimension'})
    names = [zname]
    dep2 = None
    if second == 'shared':
        # a second coordinate describing the same layers with the opposite sign convention: height = -depth
        other = 'down' if positive == 'up' else 'up'
        dep2 = dep
        arr = NDArray((sizes['k'],), lambda i: SFloat(FIN, -dep.z(i[0])), FLOAT64)
        add_var(ds, 'height', ('k',), arr, {'positive': other}, coord=True)
        names.append('height')
    return ds, names, dep, col, sizes, dims, locdims


def _sigma(positive):
    return 1 if positive.lower() in ('down', 'absent') else -1


def _deepest(c, dep, sigma, col, sizes, loc, tag='K'):
    """Skolem description of the deepest wet layer of column loc: (exists, K) with
    exists <=> some layer is wet;  exists => wet(K) and every wet layer j has d(j) <= d(K) (instantiated by ``inst``)."""
    K = c.fresh_int(tag)
    c.assume(K >= 0)
    c.assume(K < sizes['k'])
    exists = c.fresh_bool(tag + '_exists')

    def inst(j):
        """facts about layer j of this column"""
        jz = zint(j)
        inr = z3.And(jz >= 0, jz < zint(sizes['k']))
        w = col.wet(j, loc).z
        c.assume(z3.Implies(z3.And(inr, w), exists.z))
        c.assume(z3.Implies(z3.And(inr, w, exists.z), sigma * dep.f(jz) <= sigma * dep.f(K.z)))
    c.assume(z3.Implies(exists.z, col.wet(K, loc).z))
    return exists, K, inst


def _floor_value_check(c, ds, out, name, dims, locdims, sizes, exists, K, point, what):
    vi = ds._vars[name]
    c.check(f'{what}: {name!r} is kept', name in out._vars)
    if name not in out._vars:
        return
    vo = out._vars[name]
    c.check(f'{what}: {name!r} loses exactly the depth dimension', set(vo.dims) == set(vi.dims) - {'k'} and len(vo.dims) == len(vi.dims) - 1)
    if set(vo.dims) != set(vi.dims) - {'k'}:
        return
    c.check(f'{what}: {name!r} keeps its attributes', vo.attrs == vi.attrs)
    got = vo.arr.fn(tuple(point[d] for d in vo.dims))
    src = dict(point)
    src['k'] = K
    want = vi.arr.fn(tuple(src[d] for d in vi.dims))
    if isinstance(got, SFloat):
        c.check(f'{what}: {name!r} holds the value of the deepest layer that holds data', s_implies(exists, got.same_bits(want)))
        c.check(f'{what}: {name!r} is missing where the whole column is missing', s_implies(s_not(exists), got.is_nan()))
    else:
        c.check(f'{what}: {name!r} holds the value of the deepest layer', s_eq(got, want))


def _hints(c, out_var, dep, sizes, K, inst, point_loc):
    """proof hints (ghost lemma calls): instantiate the cumulative-count theory at the layers the argument talks about"""
    n = sizes['k']
    cs = getattr(c, '_last_cumsum', None)
    for cs, other in getattr(c, 'cumsums', []):
        pass


def scn_floor(c, positive, layout, nonspatial=True, dimcoord=False, second=None, given='list'):
    it = new_interp()
    ds, names, dep, col, sizes, dims, locdims = _build(c, positive, layout, dimcoord, second)
    sigma = _sigma(positive)
    f = fn(it, 'emsarray.operations.depth', 'ocean_floor')
    n = sizes['k']
    point = {d: c.fresh_int(d + 'q') for d in ('t',) + locdims}
    for d, q in point.items():
        c.assume(q >= 0)
        c.assume(q < sizes[d])
    loc = tuple(point[d] for d in locdims)
    exists, K, inst = _deepest(c, dep, sigma, col, sizes, loc)
    before = {k: (v.dims, v.arr, dict(v.attrs)) for k, v in ds._vars.items()}
    from pyvc.api import check_unmodified, snapshot
    snap = snapshot(ds)
    kw = {'non_spatial_variables': ['time']} if nonspatial else {}
    # the depth coordinates may be given as any iterable (the documented type): a list, a tuple, or a one-shot iterator / generator
    arg = {'list': lambda: list(names), 'tuple': lambda: tuple(names), 'iterator': lambda: iter(list(names)),
           'generator': lambda: (nm for nm in list(names))}[given]()
    out = expect_ok(c, 'ocean_floor returns', lambda: call(it, f, ds, arg, **kw))
    if positive == 'absent':
        c.check('a missing positive attribute is guessed with a warning', any(e[0] == 'warning' for e in c.events))
    # ---- ghost lemma calls: the argmax theory at the layers the argument needs ------------------------------------
    for name in ('temp', 'salt', 'thickness'):       # evaluate the results at the Skolem point first: this names the argmax lines involved
        if name in out._vars and set(out._vars[name].dims) <= set(point):
            out._vars[name].arr.fn(tuple(point[d] for d in out._vars[name].dims))
    lines = list(getattr(c, 'argmax_lines', []))
    c.check('the floor is looked up for the column in question', len(lines) >= 1)
    _instantiate(c, lines, dep, n, K, inst)
    # ---- frame ------------------------------------------------------------------------------------------------------
    c.check('the depth dimension is gone', 'k' not in out._sizes())
    c.check('the depth coordinates are gone', not any(nm in out._vars for nm in names))
    c.check('no variable keeps the depth dimension', not any('k' in v.dims for v in out._vars.values()))
    c.check('global attributes are kept', out.attrs == ds.attrs)
    keep = [k for k, v in ds._vars.items() if 'k' not in v.dims]
    c.check('every variable without the depth dimension is kept, nothing is invented',
            set(out._vars) == set(keep) | {k for k, v in ds._vars.items() if 'k' in v.dims and set(v.dims) - {'k'} - ({'t'} if nonspatial else set()) and k not in names})
    for k in keep:
        if k not in out._vars:
            continue
        vo, (d0, a0, at0) = out._vars[k], before[k]
        c.check(f'{k!r} (no depth dimension) keeps dims and attributes', vo.dims == d0 and vo.attrs == at0)
        i = tuple(point[d] for d in d0)
        g, w = vo.arr.fn(i), a0.fn(i)
        c.check(f'{k!r} (no depth dimension) keeps its values', g.same_bits(w) if isinstance(g, SFloat) else s_eq(g, w))
        c.check(f'{k!r} stays a {"coordinate" if k in ds._coord_names else "data variable"}', (k in out._coord_names) == (k in ds._coord_names))
    check_unmodified(c, ds, snap, 'the dataset given to ocean_floor (values included: a second call sees the same dataset)')
    c.check('the input dataset is not modified', all(ds._vars[k].arr is a and ds._vars[k].dims == d and ds._vars[k].attrs == at for k, (d, a, at) in before.items()) and list(ds._vars) == list(before))
    # ---- the floor values ----------------------------------------------------------------------------------------------
    for name in ('temp', 'salt', 'thickness'):
        _floor_value_check(c, ds, out, name, dims, locdims, sizes, exists, K, point, 'floor')


def _instantiate(c, lines, dep, n, K, inst):
    """For every argmax line evaluated by the code: connect M (position in the normalised order) with the stored layer it
    denotes, and instantiate CUMSUM-MONOTONE / the argmax facts at the stored layer K and its neighbours."""
    for cs, other, m in lines:
        # candidates for the stored index of normalised layer m, and the normalised index of stored layer K
        for j in (K, n - 1 - K):
            cs.argmax_facts(other, j)
            cs.s(other, j)
            cs.monotone(other, m, j - 1)
            cs.monotone(other, 0, j - 1)
        cs.argmax_facts(other, m - 1)
        cs.s(other, m)
        cs.monotone(other, 0, m - 1)
        for j in (m, n - 1 - m):
            inst(j)
        dep.instantiate([K, m, n - 1 - m, n - 1 - K, 0, 1, n - 1, n - 2])


def scn_two_dims(c):
    """layers (k) and interfaces (kg) over the same horizontal grid: each variable is reduced with the floor of its own depth
    dimension, whichever depth dimension the (hash ordered) loop handles first."""
    it = new_interp()
    sizes = {'t': sym_size(c, 'nt', 1), 'k': sym_size(c, 'nk', 2), 'kg': sym_size(c, 'nkg', 2), 'y': sym_size(c, 'ny', 0), 'x': sym_size(c, 'nx', 0)}
    locdims = ('y', 'x')
    cols = {'k': Column(c, 'wet', 2), 'kg': Column(c, 'wetg', 2)}
    deps = {'k': Depth(c, 'z', sizes['k']), 'kg': Depth(c, 'zg', sizes['kg'])}
    ds = XDataset(attrs={'title': 'model run'})
    add_var(ds, 'zc', ('k',), deps['k'].arr(), {'positive': 'up'}, coord=True)
    add_var(ds, 'zg', ('kg',), deps['kg'].arr(), {'positive': 'down'}, coord=True)
    add_var(ds, 'time', ('t',), sym_array(c, 'time', (sizes['t'],), 'real'), {}, coord=True)

    def warr(name, dims, dd):
        col = cols[dd]
        val = c.fresh_fn(name, *([z3.IntSort()] * len(dims)), z3.RealSort())

        def at(i):
            env = dict(zip(dims, i))
            w = col.wet(env[dd], (env['y'], env['x']))
            return SFloat(mk_int(z3.If(w.z, FIN, NAN)), mk_real(val(*[zint(x) for x in i])))
        return NDArray(tuple(sizes[d] for d in dims), at, FLOAT64)
    add_var(ds, 'temp', ('t', 'k', 'y', 'x'), warr('temp', ('t', 'k', 'y', 'x'), 'k'), {'units': 'degC'})
    add_var(ds, 'flux', ('t', 'kg', 'y', 'x'), warr('flux', ('t', 'kg', 'y', 'x'), 'kg'), {'units': 'm3 s-1'})
    point = {d: c.fresh_int(d + 'q') for d in ('t', 'y', 'x')}
    for d, q in point.items():
        c.assume(q >= 0)
        c.assume(q < sizes[d])
    loc = (point['y'], point['x'])
    f = fn(it, 'emsarray.operations.depth', 'ocean_floor')
    out = expect_ok(c, 'ocean_floor returns', lambda: call(it, f, ds, ['zc', 'zg'], non_spatial_variables=['time']))
    c.check('both depth dimensions are gone', 'k' not in out._sizes() and 'kg' not in out._sizes())
    for name, dd, sigma in (('temp', 'k', -1), ('flux', 'kg', 1)):
        sz = dict(sizes)
        sz['k'] = sizes[dd]

        class _Col:
            def wet(self_, k, l, col=cols[dd]):
                return col.wet(k, l)
        exists, K, inst = _deepest(c, deps[dd], sigma, _Col(), sz, loc, tag='K' + dd)
        c.check(f'{name!r} is kept', name in out._vars)
        if name not in out._vars:
            continue
        vo, vi = out._vars[name], ds._vars[name]
        c.check(f'{name!r} loses exactly its depth dimension', set(vo.dims) == {'t', 'y', 'x'})
        if set(vo.dims) != {'t', 'y', 'x'}:
            continue
        n0 = len(getattr(c, 'argmax_lines', []))
        got = vo.arr.fn(tuple(point[d] for d in vo.dims))
        lines = list(getattr(c, 'argmax_lines', []))[n0:]
        c.check(f'{name!r}: the floor is looked up for the column in question', len(lines) >= 1)
        _instantiate(c, lines, deps[dd], sizes[dd], K, inst)
        src = dict(point)
        src[dd] = K
        want = vi.arr.fn(tuple(src[d] for d in vi.dims))
        c.check(f'{name!r} holds the value of the deepest layer of its own depth dimension that holds data', s_implies(exists, got.same_bits(want)))
        c.check(f'{name!r} is missing where its whole column is missing', s_implies(s_not(exists), got.is_nan()))


def known_size(a, b):
    return a is b or (hasattr(a, 'z') and hasattr(b, 'z') and z3.eq(a.z, b.z))


def scn_indexes(c):
    """_find_ocean_floor_indexes on an arbitrary pattern of missing values (gaps allowed): the last valid layer, 0 for an empty column"""
    it = new_interp()
    f = fn(it, 'emsarray.operations.depth', '_find_ocean_floor_indexes')
    for dims in (('k', 'y', 'x'), ('y', 'k', 'x'), ('x', 'y', 'k')):
        for dtype in ('floatnan', 'int'):
            tag = f'{dtype}{dims}: '
            sizes = {'k': sym_size(c, 'nk', 1), 'y': sym_size(c, 'ny', 0), 'x': sym_size(c, 'nx', 0)}
            arr = sym_array(c, 'data', tuple(sizes[d] for d in dims), dtype)
            da = XDataArray(data=arr, dims=dims, name='temp')
            idx = expect_ok(c, tag + 'returns', lambda: call(it, f, da, 'k'))
            v = idx.variable
            c.check(tag + 'one index per column, depth dimension removed', v.dims == tuple(d for d in dims if d != 'k'))
            if v.dims != tuple(d for d in dims if d != 'k'):
                continue
            q = {d: c.fresh_int(d + 'q') for d in ('y', 'x')}
            for d, x in q.items():
                c.assume(x >= 0)
                c.assume(x < sizes[d])
            m = v.arr.fn(tuple(q[d] for d in v.dims))
            cs = v.arr._argmax_of
            other = tuple(q[d] for d in v.dims)
            j = c.fresh_int('j')
            c.assume(j >= 0)
            c.assume(j < sizes['k'])

            def valid(k):
                e = arr.fn(tuple({**q, 'k': k}[d] for d in dims))
                return s_not(e.is_nan()) if isinstance(e, SFloat) else True
            # ghost lemma calls
            cs.argmax_facts(other, j)
            cs.argmax_facts(other, m - 1)
            cs.s(other, m)
            cs.monotone(other, m, j - 1)
            cs.monotone(other, 0, j - 1)
            cs.monotone(other, 0, m - 1)
            c.check(tag + 'the index is a layer index', s_and(m >= 0, m < sizes['k']))
            c.check(tag + 'no layer below the reported one holds data', s_implies(mk_bool(j.z > m.z), s_not(valid(j))))
            c.check(tag + 'the reported layer holds data whenever any layer does', s_implies(valid(j), valid(m)))
            c.check(tag + 'a column without data reports layer 0', s_implies(s_not(valid(m)), s_eq(m, 0)))
    # an empty depth axis has no floor
    da = XDataArray(data=sym_array(c, 'e', (0, sym_size(c, 'ne', 0)), 'floatnan'), dims=('k', 'x'), name='e')
    expect_raise(c, 'an empty depth axis is refused', lambda: call(it, f, da, 'k'), ValueError)


NATIVE = {'': 'ocean_floor', 'dataset.ems': 'ocean_floor_conventions'}


ENTRY_DEPTHS = {        # convention -> [(variable, dimension, positive)]: the layer variables the dataset carries
    'CFGrid1D': [('depth', 'k', 'down')], 'CFGrid2D': [('depth', 'k', 'down'), ('sediment_depth', 'ksed', 'down')], 'UGrid': [('layer_depth', 'nlayer', 'up')],
    'ShocSimple': [('zc', 'k', 'up'), ('zcsed', 'ksed', 'up')], 'ShocStandard': [('z_centre', 'k_centre', 'up'), ('z_grid', 'k_grid', 'up')],
}
ENTRY_TIME = {'CFGrid1D': 'time', 'CFGrid2D': 'time', 'UGrid': 'time', 'ShocSimple': 'time', 'ShocStandard': 't'}


def scn_entry(c, conv_name, as_coord):
    """Convention.depth_coordinates / Convention.ocean_floor: the reduction (contract: the scenarios above) is applied to the dataset itself,
    with EVERY layer variable of the dataset - whether it is held as an xarray coordinate or as a plain variable - and with the time
    coordinate as the only non-spatial variable."""
    from contracts import inputs
    from pyvc.api import attr, method
    from pyvc.contract import Contract
    from pyvc.lib import numpy_ as np
    from pyvc.lib.stdlib import OpaqueValue
    MOD = 'emsarray.operations.depth'
    it = new_interp()
    ds, conv = inputs.make_convention(it, c, conv_name)
    face = ds.info['dims']['face']
    tname = ENTRY_TIME[conv_name]
    tdim = 'record' if conv_name == 'ShocStandard' else 'time'
    nt = sym_size(c, 'nt', 0)
    add_var(ds, tname, (tdim,), np.NDArray((nt,), sym_array(c, 'tv', (nt,), 'V').fn, np.DATETIME), {}, {'units': 'days since 1990-01-01', 'calendar': 'standard'}, coord=True)
    for name, dim, positive in ENTRY_DEPTHS[conv_name]:
        n = sym_size(c, 'n_' + dim, 1)
        add_var(ds, name, (dim,), sym_array(c, name, (n,), 'real'), {'positive': positive, 'axis': 'Z'}, coord=as_coord)
        shape = (nt, n) + tuple(ds._sizes()[d] for d in face)
        add_var(ds, 'data_' + name, (tdim, dim) + tuple(face), sym_array(c, 'data_' + name, shape, 'floatnan'))
    calls = []

    def post(it_, a):
        calls.append(a)
        return OpaqueValue('floor')
    it.contracts[(MOD, 'ocean_floor')] = Contract(MOD, 'ocean_floor', post=post, verified_by='C12 ocean_floor scenarios')
    want = [name for name, _, _ in ENTRY_DEPTHS[conv_name]]
    dcs = expect_ok(c, 'depth_coordinates returns', lambda: attr(it, conv, 'depth_coordinates'))
    got = [getattr(d, 'name', None) for d in dcs]
    c.check(f'depth_coordinates are exactly the layer variables of the dataset, each once: {want}', sorted(map(str, got)) == sorted(want), note=f'got {got}')
    c.check('each of them is the variable of the dataset itself', all(getattr(d, 'variable', None) is not None and d.variable.arr is ds._vars[d.name].arr for d in dcs if d.name in ds._vars))
    r = expect_ok(c, 'dataset.ems.ocean_floor() returns', lambda: method(it, conv, 'ocean_floor'))
    c.check('the reduction is called exactly once, on the dataset itself', len(calls) == 1 and calls[0].get('dataset') is ds)
    if len(calls) != 1:
        raise PathEnd()
    given = list(it.iterate(calls[0].get('depth_coordinates')))
    c.check('every layer variable of the dataset is handed to the reduction', sorted(str(getattr(g, 'name', g)) for g in given) == sorted(want))
    nsv = calls[0].get('non_spatial_variables')
    nsv = list(it.iterate(nsv)) if nsv is not None else []
    c.check('the time coordinate is the one non-spatial variable', [str(getattr(g, 'name', g)) for g in nsv] == [tname])
    c.check('the result of the reduction is returned as it is', r is not None and getattr(r, 'what', None) == 'floor' or isinstance(r, OpaqueValue))
