"""Contracts of Convention.polygons / strtree used at call sites by the clipping, lookup, export and plotting
properties: an abstract polygon array over the face grid -- slot n holds None (hole(n)) or the polygon poly(n).
Verified by C02 / C06 (the real _make_polygons / polygons bodies produce such an array with the right cells)."""
from __future__ import annotations

import z3

from pyvc import core
from pyvc.contract import Contract
from pyvc.core import GeomSort, Maybe, mk_bool, zint
from pyvc.lib import numpy_ as np
from pyvc.lib.shapely_ import STRtreeModel


class Outline:
    """polygon.exterior (.coords): the outline of one polygon, as a token"""
    _pyvc_model_class = True

    def __init__(self, poly):
        self.poly = poly

    @property
    def coords(self):
        return self


class Coords:
    """polygon.__geo_interface__['coordinates']: the exact binary64 coordinates of one polygon, as a token"""
    _pyvc_model_class = True

    def __init__(self, poly):
        self.poly = poly


class AbstractPoly:
    _pyvc_model_class = True

    def __init__(self, term, n):
        self.term, self.n = term, n

    @property
    def __geo_interface__(self):
        return {'type': 'Polygon', 'coordinates': Coords(self)}

    @property
    def exterior(self):
        return Outline(self)

    def intersects(self, other):
        # SH-INTERSECTS: the same (symmetric) predicate the spatial index evaluates
        from pyvc.lib.shapely_ import _fn
        pred = core.ctx()._shp_fns.get('pred_intersects')
        if pred is None or not hasattr(other, 'z'):
            raise core.Unsupported('polygon.intersects of something that is not a geometry term')
        return mk_bool(pred(other.z, self.term))

    @property
    def bounds(self):
        # SH-BOUNDS: (min x, min y, max x, max y) of the polygon, as terms
        from pyvc.lib.floats import FIN, SFloat
        from pyvc.lib.shapely_ import _fn
        return tuple(SFloat(FIN, core.mk_real(_fn('geom_bound_' + k, GeomSort, z3.RealSort())(self.term))) for k in ('minx', 'miny', 'maxx', 'maxy'))

    def intersection(self, other):
        from pyvc.lib.shapely_ import intersection_of
        return intersection_of(self.term, other)

    def _geom_kind(self, name):
        return name in ('Polygon', 'BaseGeometry')

    def _is(self, other):
        return False if other is None else self is other

    def _eq(self, other):
        if isinstance(other, AbstractPoly):
            return mk_bool(self.term == other.term)
        return False

    def __repr__(self):
        return f'<polygon of cell {self.n}>'


def face_size(conv):
    ds = conv.attrs['dataset']
    size = 1
    for n in ds.info['shape']['face']:
        size = size * n
    return size


def abstract_polygons(conv):
    c = core.ctx()
    cache = getattr(c, '_abs_polys', None)
    if cache is None:
        cache = c._abs_polys = {}
    if id(conv) in cache:
        return cache[id(conv)]
    size = face_size(conv)
    hole = c.fresh_fn('hole', z3.IntSort(), z3.BoolSort())
    poly = c.fresh_fn('poly', z3.IntSort(), GeomSort)

    def at(i):
        n = i[0]
        h = mk_bool(hole(zint(n)))
        return Maybe.ite(h, None, AbstractPoly(poly(zint(n)), n))
    arr = np.NDArray((size,), at, np.OBJECT)
    arr.hole, arr.poly = hole, poly
    arr.writeable = False
    cache[id(conv)] = arr
    return arr


def _polygons(it, a):
    return abstract_polygons(a['self'])


def _strtree(it, a):
    polys = abstract_polygons(a['self'])
    t = STRtreeModel(polys)
    return t


def _mask(it, a):
    polys = abstract_polygons(a['self'])
    if not hasattr(polys, '_mask_array'):       # cached_property: the same array object on every access
        polys._mask_array = np.NDArray(polys.shape, lambda i: mk_bool(z3.Not(polys.hole(zint(i[0])))), np.BOOL)
    return polys._mask_array


def _face_centres(it, a):
    """(size, 2) array: row n = the centre of cell n (verified by C02 face_centres scenarios)."""
    from pyvc.api import sym_array
    polys = abstract_polygons(a['self'])
    if not hasattr(polys, '_centres'):
        polys._centres = sym_array(core.ctx(), 'centre', (polys.shape[0], 2), 'floatnan')
    return polys._centres


CONTRACTS = [
    Contract('emsarray.conventions._base', 'Convention.polygons', post=_polygons, verified_by='C02/C06'),
    Contract('emsarray.conventions._base', 'Convention.strtree', post=_strtree, verified_by='C02 (STRtree is built over the full polygon array)'),
    Contract('emsarray.conventions._base', 'Convention.mask', post=_mask, verified_by='C06 (mask[n] <=> polygons[n] is not None)'),
]
FACE_CENTRES = {
    name: Contract(mod, name_ + '.face_centres', post=_face_centres, verified_by='C02 face_centres')
    for name, (mod, name_) in {
        'Convention': ('emsarray.conventions._base', 'Convention'), 'CFGrid1D': ('emsarray.conventions.grid', 'CFGrid1D'),
        'CFGrid2D': ('emsarray.conventions.grid', 'CFGrid2D'), 'ArakawaC': ('emsarray.conventions.arakawa_c', 'ArakawaC'),
        'UGrid': ('emsarray.conventions.ugrid', 'UGrid')}.items()
}
POLY_KEYS = [c.key for c in CONTRACTS]
