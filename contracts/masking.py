"""Contract of arakawa_c.c_mask_from_centres (verified by C07 scenario `c_mask_from_centres` against the real body)."""
from __future__ import annotations

import z3

from pyvc import core
from pyvc.contract import Contract
from pyvc.core import mk_bool, s_and, s_or, truthy, zint
from pyvc.lib import numpy_ as np
from pyvc.lib.xarray_ import XDataArray, XDataset

PATTERNS = {'face': (False, False), 'left': (False, True), 'back': (True, False), 'node': (True, True)}


def smear_spec(arr, pat):
    dj, di = pat
    ny, nx = arr.shape
    f = arr.fn

    def F(j, i):
        inr = mk_bool(z3.And(zint(j) >= 0, zint(j) < zint(ny), zint(i) >= 0, zint(i) < zint(nx)))
        return s_and(inr, truthy(f((j, i))))

    def at(idx):
        j, i = idx
        return s_or(*[F(j - a, i - b) for a in ((0, 1) if dj else (0,)) for b in ((0, 1) if di else (0,))])
    return np.NDArray((ny + (1 if dj else 0), nx + (1 if di else 0)), at, np.BOOL)


def _c_mask(it, a):
    face_mask, dims, coords = a['face_mask'], a['dimensions'], a.get('coords')
    ds = XDataset()
    by_name = {getattr(k, 'name', k): v for k, v in dims.items()}
    for kind in ('face', 'back', 'left', 'node'):
        arr = face_mask if kind == 'face' else smear_spec(face_mask, PATTERNS[kind])
        ds._add(kind + '_mask', XDataArray(data=arr, dims=tuple(by_name[kind])), False)
    if coords is not None:
        for k, v in coords.items():
            ds._add(k, v, True)
    return ds


CONTRACTS = [
    Contract('emsarray.conventions.arakawa_c', 'c_mask_from_centres', post=_c_mask, verified_by='C07 c_mask_from_centres'),
]
C_MASK_KEY = CONTRACTS[0].key
