"""Contracts assumed at the call sites of the CLI handlers (C20).

The handlers are thin: what C20 needs from their callees is only *that they are called, with which
arguments, in which order* -- each callee's own behaviour is the subject of another property
(C05 extract_dataframe, C07-C09 clip, C15 writers, C17 to_netcdf).  Each stub records a trace event
and returns an opaque value; callees that may fail do so nondeterministically.
"""
from __future__ import annotations

from pyvc import core
from pyvc.contract import Contract
from pyvc.core import ExcObj, PyRaise
from pyvc.interp import model
from pyvc.lib.stdlib import OpaqueValue, choice


class EmsStub:
    _pyvc_model_class = True

    def __init__(self, ds):
        self.ds = ds

    def clip(self, geometry, work_dir=None, **kw):
        core.ctx().event('call', 'ems.clip', self.ds, geometry, work_dir, kw)
        return DatasetStub('clipped', parent=self.ds)

    def to_netcdf(self, path, **kw):
        core.ctx().event('call', 'ems.to_netcdf', self.ds, path, kw)

    @property
    def time_coordinate(self):
        core.ctx().event('call', 'ems.time_coordinate', self.ds)
        if choice('has_time_coordinate'):
            return OpaqueValue('time_coordinate', name=OpaqueValue('time-name'))
        raise PyRaise(ExcObj(self.ds.no_such_coordinate, ('no time',)))

    def _n(self):
        if not hasattr(self.ds, '_npoly'):
            n = core.ctx().fresh_int('npoly')
            core.ctx().assume(n >= 0)
            self.ds._npoly = n
        return self.ds._npoly

    @property
    def polygons(self):
        from pyvc.api import sym_array
        return sym_array(core.ctx(), 'polys', (self._n(),), 'V')

    @property
    def mask(self):
        from pyvc.api import sym_array
        return sym_array(core.ctx(), 'maskv', (self._n(),), 'bool')


class DatasetStub(OpaqueValue):
    def __init__(self, what, parent=None, no_such_coordinate=KeyError):
        super().__init__(what)
        self.parent = parent
        self.no_such_coordinate = no_such_coordinate if parent is None else parent.no_such_coordinate

    def _getattr(self, name):
        if name == 'ems':
            return EmsStub(self)
        raise core.Unsupported(f'dataset stub attribute {name}')


def _open_dataset(it, a):
    core.ctx().event('call', 'open_dataset', a['path'], a.get('kwargs'))
    from pyvc.api import cls
    nsc = cls(it, 'emsarray.exceptions', 'NoSuchCoordinateError')
    return DatasetStub('dataset', no_such_coordinate=nsc)


def _extract_dataframe(it, a):
    core.ctx().event('call', 'extract_dataframe', a['dataset'], a['dataframe'], a['coordinate_columns'],
                     a.get('point_dimension'), a.get('missing_points'))
    if choice('all_points_intersect'):
        return DatasetStub('point_data')
    from pyvc.api import cls
    nip = cls(it, 'emsarray.operations.point_extraction', 'NonIntersectingPoints')
    exc = ExcObj(nip, ())
    exc.attrs['indexes'] = OpaqueValue('missing-indexes')
    exc.attrs['points'] = OpaqueValue('missing-points')
    raise PyRaise(exc)


def _to_netcdf_with_fixes(it, a):
    core.ctx().event('call', 'to_netcdf_with_fixes', a['dataset'], a['path'], a.get('time_variable'), a.get('kwargs'))
    return None


def _writer(name):
    def post(it, a):
        vals = list(a.values())
        core.ctx().event('call', name, vals[0], vals[1])
        return None
    return post


CONTRACTS = [
    Contract('emsarray.conventions._utils', 'open_dataset', post=_open_dataset, verified_by='assumed (IO)'),
    Contract('emsarray.operations.point_extraction', 'extract_dataframe', post=_extract_dataframe, verified_by='C05'),
    Contract('emsarray.utils', 'to_netcdf_with_fixes', post=_to_netcdf_with_fixes, verified_by='C17'),
    Contract('emsarray.operations.geometry', 'write_geojson', post=_writer('write_geojson'), verified_by='C15'),
    Contract('emsarray.operations.geometry', 'write_shapefile', post=_writer('write_shapefile'), verified_by='C15'),
    Contract('emsarray.operations.geometry', 'write_wkt', post=_writer('write_wkt'), verified_by='C15'),
    Contract('emsarray.operations.geometry', 'write_wkb', post=_writer('write_wkb'), verified_by='C15'),
]
CLI_KEYS = [c.key for c in CONTRACTS]
