"""Input validity predicates as *symbolic dataset builders*.

Each builder returns a dataset of one convention whose extents and contents are
symbolic and whose structure (variable names, dimension names, attributes) is the
one the convention requires.  Structural variation (bounds present, coordinates held
as coords or plain variables, extra variables, dimension order) is a parameter; the
property scenarios enumerate it.  These are the `requires` clauses of every property
"for all datasets of convention X" -- listed in evidence as assumptions.
"""
from __future__ import annotations

import z3

from pyvc import core
from pyvc.api import (BOOL, FIN, FLOAT64, INT32, INT64, NAN, NDArray, SFloat, Variable, XDataset, add_var,
                      mk_bool, mk_int, mk_real, s_ite, sym_array, sym_size, zint)

ASSUMPTIONS = {
    'cf1d': 'VALID-CF1D: latitude(y) and longitude(x) are 1-D variables on two distinct dimensions, '
            'detected through units/standard_name/axis; extents ny,nx >= 0 (>= 2 where midpoints are synthesised)',
    'cf2d': 'VALID-CF2D: latitude(j,i) and longitude(j,i) are 2-D variables on the same two distinct dimensions',
    'shoc_simple': 'VALID-SHOC-SIMPLE: global attribute ems_version, dimensions j,i, latitude/longitude(j,i) '
                   'with standard_name',
    'shoc_standard': 'VALID-SHOC-STANDARD: x/y_centre(j_centre,i_centre) [ny,nx], x/y_left(j_left,i_left) '
                     '[ny,nx+1], x/y_back(j_back,i_back) [ny+1,nx], x/y_grid(j_node,i_node) [ny+1,nx+1]',
    'ugrid': 'VALID-UGRID: Conventions contains UGRID; one mesh_topology variable with topology_dimension 2; '
             'node coordinates (nnode); face_node_connectivity (nface, max_nodes) or transposed',
}


def cf1d(c, *, bounds=False, as_coords=True, lat_name='lat', lon_name='lon', ydim='lat', xdim='lon',
         min_size=0, coord_kind='real', detect='units', extra=(), leading=None):
    ny, nx = sym_size(c, 'ny', min_size), sym_size(c, 'nx', min_size)
    ds = XDataset()
    if leading:
        # a data variable stored ahead of the coordinates, e.g. temp(x, y): the order of Dataset.sizes then differs from (y, x)
        lsz = {ydim: ny, xdim: nx}
        add_var(ds, 'leading', tuple(leading), sym_array(c, 'leading', tuple(lsz[d] for d in leading), 'V'))
    lat_attrs = {'units': 'degrees_north'} if detect == 'units' else (
        {'standard_name': 'latitude'} if detect == 'standard_name' else {'axis': 'Y'})
    lon_attrs = {'units': 'degrees_east'} if detect == 'units' else (
        {'standard_name': 'longitude'} if detect == 'standard_name' else {'axis': 'X'})
    if bounds:
        lat_attrs['bounds'] = 'lat_bnds'
        lon_attrs['bounds'] = 'lon_bnds'
    add_var(ds, lat_name, (ydim,), sym_array(c, 'latv', (ny,), coord_kind), lat_attrs, coord=as_coords)
    add_var(ds, lon_name, (xdim,), sym_array(c, 'lonv', (nx,), coord_kind), lon_attrs, coord=as_coords)
    if bounds:
        add_var(ds, 'lat_bnds', (ydim, 'bnds'), sym_array(c, 'latb', (ny, 2), coord_kind), coord=(bounds == 'coords'))
        add_var(ds, 'lon_bnds', (xdim, 'bnds'), sym_array(c, 'lonb', (nx, 2), coord_kind), coord=(bounds == 'coords'))
    for ex in extra:
        name, dims, vkind = (tuple(ex) + ('V',))[:3]
        sizes = dict(ds._sizes())
        shape = tuple(sizes[d] if d in sizes else sym_size(c, f'n_{d}', 0) for d in dims)
        add_var(ds, name, dims, sym_array(c, 'data_' + str(name), shape, vkind))
    ds.info = {'convention': 'CFGrid1D', 'ny': ny, 'nx': nx, 'ydim': ydim, 'xdim': xdim,
               'lat': lat_name, 'lon': lon_name, 'shape': {'face': (ny, nx)}, 'dims': {'face': (ydim, xdim)}}
    c.assumptions_used.add(ASSUMPTIONS['cf1d'])
    return ds


def cf2d(c, *, bounds=False, as_coords=True, ydim='j', xdim='i', lat_name='lat', lon_name='lon',
         coord_kind='floatnan', attrs=None, std_names=True, extra=(), first_var=None, lon_transposed=False, bounds_dims='yx4'):
    ny, nx = sym_size(c, 'ny', 0), sym_size(c, 'nx', 0)
    ds = XDataset(attrs=attrs or {})
    if first_var is not None:
        name, dims, vattrs = first_var
        sizes = {ydim: ny, xdim: nx}
        add_var(ds, name, dims, sym_array(c, 'first_' + str(name), tuple(sizes[d] for d in dims), 'V'), vattrs)
    lat_attrs = {'units': 'degrees_north'}
    lon_attrs = {'units': 'degrees_east'}
    if std_names:
        lat_attrs['standard_name'] = 'latitude'
        lon_attrs['standard_name'] = 'longitude'
    if bounds:
        lat_attrs['bounds'] = 'lat_bnds'
        lon_attrs['bounds'] = 'lon_bnds'
    add_var(ds, lat_name, (ydim, xdim), sym_array(c, 'latv', (ny, nx), coord_kind), lat_attrs, coord=as_coords)
    if lon_transposed:      # longitude stored with its two dimensions the other way round (the code ravels coordinate variables by name)
        add_var(ds, lon_name, (xdim, ydim), sym_array(c, 'lonv', (nx, ny), coord_kind), lon_attrs, coord=as_coords)
    else:
        add_var(ds, lon_name, (ydim, xdim), sym_array(c, 'lonv', (ny, nx), coord_kind), lon_attrs, coord=as_coords)
    if bounds:
        bd, bs = {'yx4': ((ydim, xdim, 'four'), (ny, nx, 4)), 'xy4': ((xdim, ydim, 'four'), (nx, ny, 4)), 'yx3': ((ydim, xdim, 'three'), (ny, nx, 3)),
                  '4yx': (('four', ydim, xdim), (4, ny, nx))}[bounds_dims]
        add_var(ds, 'lat_bnds', bd, sym_array(c, 'latb', bs, coord_kind), coord=(bounds == 'coords'))
        add_var(ds, 'lon_bnds', bd, sym_array(c, 'lonb', bs, coord_kind), coord=(bounds == 'coords'))
    for ex in extra:
        name, dims, vkind = (tuple(ex) + ('V',))[:3]
        sizes = dict(ds._sizes())
        shape = tuple(sizes[d] if d in sizes else sym_size(c, f'n_{d}', 0) for d in dims)
        add_var(ds, name, dims, sym_array(c, 'data_' + str(name), shape, vkind))
    ds.info = {'convention': 'CFGrid2D', 'ny': ny, 'nx': nx, 'ydim': ydim, 'xdim': xdim,
               'lat': lat_name, 'lon': lon_name, 'shape': {'face': (ny, nx)}, 'dims': {'face': (ydim, xdim)}}
    c.assumptions_used.add(ASSUMPTIONS['cf2d'])
    return ds


def shoc_simple(c, **kw):
    kw.setdefault('lat_name', 'latitude')
    kw.setdefault('lon_name', 'longitude')
    ds = cf2d(c, ydim='j', xdim='i', attrs={'ems_version': 'v1.2.3'}, **kw)
    ds.info['convention'] = 'ShocSimple'
    c.assumptions_used.add(ASSUMPTIONS['shoc_simple'])
    return ds


SHOC_KINDS = {
    'face': ('y_centre', 'x_centre', 'j_centre', 'i_centre', 0, 0),
    'left': ('y_left', 'x_left', 'j_left', 'i_left', 0, 1),
    'back': ('y_back', 'x_back', 'j_back', 'i_back', 1, 0),
    'node': ('y_grid', 'x_grid', 'j_node', 'i_node', 1, 1),
}


def shoc_standard(c, *, as_coords=True, coord_kind='floatnan', extra=(), leading=False, x_transposed=()):
    """x_transposed: grid kinds whose x (longitude) variable stores its two dimensions the other way round than its y variable"""
    ny, nx = sym_size(c, 'ny', 0), sym_size(c, 'nx', 0)
    ds = XDataset()
    shapes, dims = {}, {}
    if leading:
        # data variables stored ahead of the coordinates with the i dimension first
        for kind, (yn, xn, jd, idim, dj, di) in SHOC_KINDS.items():
            add_var(ds, 'leading_' + kind, (idim, jd), sym_array(c, 'leading_' + kind, (nx + di, ny + dj), 'V'))
    for kind, (yn, xn, jd, idim, dj, di) in SHOC_KINDS.items():
        shp = (ny + dj, nx + di)
        shapes[kind] = shp
        dims[kind] = (jd, idim)
        add_var(ds, yn, (jd, idim), sym_array(c, yn, shp, coord_kind), {'units': 'degrees_north'}, coord=as_coords)
        if kind in x_transposed:
            add_var(ds, xn, (idim, jd), sym_array(c, xn, (shp[1], shp[0]), coord_kind), {'units': 'degrees_east'}, coord=as_coords)
        else:
            add_var(ds, xn, (jd, idim), sym_array(c, xn, shp, coord_kind), {'units': 'degrees_east'}, coord=as_coords)
    for ex in extra:
        name, vdims, vkind = (tuple(ex) + ('V',))[:3]
        sizes = dict(ds._sizes())
        shape = tuple(sizes[d] if d in sizes else sym_size(c, f'n_{d}', 0) for d in vdims)
        add_var(ds, name, vdims, sym_array(c, 'data_' + str(name), shape, vkind))
    ds.info = {'convention': 'ShocStandard', 'ny': ny, 'nx': nx, 'shape': shapes, 'dims': dims}
    c.assumptions_used.add(ASSUMPTIONS['shoc_standard'])
    return ds


def ugrid(c, *, edges='none', transposed=False, start_index=0, fill='none', coords_as='vars',
          face_dimension_attr=True, edge_transposed=False, extra=(), face_coords=False, tables=(), edge_coords=False, kw_maxn=None,
          latitude_first=False, edge_data=True):
    """edge_data=False with edges='dimension': the mesh names an edge dimension that no variable uses (it has no size in the dataset).
    edges: 'none' | 'dimension' (edge_dimension attr only) | 'edge_node' (connectivity variable, implied
    dimension) | 'both'."""
    nnode, nface = sym_size(c, 'nnode', 0), sym_size(c, 'nface', 0)
    maxn = kw_maxn if kw_maxn is not None else sym_size(c, 'maxn', 3)
    ds = XDataset(attrs={'Conventions': 'UGRID-1.0'})
    mesh_attrs = {'cf_role': 'mesh_topology', 'topology_dimension': 2, 'node_coordinates': 'node_x node_y',
                  'face_node_connectivity': 'face_node'}
    if face_dimension_attr:
        mesh_attrs['face_dimension'] = 'nface'
    nedge = None
    if edges in ('dimension', 'both'):
        mesh_attrs['edge_dimension'] = 'nedge'
    if edges in ('edge_node', 'both'):
        mesh_attrs['edge_node_connectivity'] = 'edge_node'
    if face_coords:
        mesh_attrs['face_coordinates'] = 'face_x face_y'
    add_var(ds, 'mesh', (), NDArray((), lambda i: 0, INT32), mesh_attrs)
    is_coord = coords_as == 'coords'
    add_var(ds, 'node_x', ('nnode',), sym_array(c, 'node_x', (nnode,), 'floatnan'), coord=is_coord)
    add_var(ds, 'node_y', ('nnode',), sym_array(c, 'node_y', (nnode,), 'floatnan'), coord=is_coord)
    fn_attrs = {'cf_role': 'face_node_connectivity'}
    if start_index is not None:
        fn_attrs['start_index'] = start_index
    shape = (maxn, nface) if transposed else (nface, maxn)
    fdims = ('maxn', 'nface') if transposed else ('nface', 'maxn')
    add_var(ds, 'face_node', fdims, sym_array(c, 'face_node', shape, 'int', INT32), fn_attrs)
    if edges != 'none':
        nedge = sym_size(c, 'nedge', 0)
        if edges in ('edge_node', 'both'):
            en_attrs = {'cf_role': 'edge_node_connectivity'}
            if start_index is not None:
                en_attrs['start_index'] = start_index
            if edge_transposed:
                add_var(ds, 'edge_node', ('Two', 'nedge'), sym_array(c, 'edge_node', (2, nedge), 'int', INT32), en_attrs)
            else:
                add_var(ds, 'edge_node', ('nedge', 'Two'), sym_array(c, 'edge_node', (nedge, 2), 'int', INT32), en_attrs)
        if edges == 'dimension' and edge_data:
            # VALID-UGRID: a declared edge_dimension exists in the dataset (here through an edge data variable)
            add_var(ds, 'edge_data', ('nedge',), sym_array(c, 'edge_data', (nedge,), 'V'))
    for t, dims_, shp in (('face_edge', ('nface', 'maxn'), None), ('face_face', ('nface', 'maxn'), None), ('edge_face', ('nedge', 'Two'), None)):
        if t in tables:
            if t == 'edge_face' and nedge is None:
                nedge = sym_size(c, 'nedge', 0)
            shape_ = (nface, maxn) if dims_[0] == 'nface' else (nedge, 2)
            mesh_attrs[t + '_connectivity'] = t
            tattrs = {'cf_role': t + '_connectivity'}
            if start_index is not None:
                tattrs['start_index'] = start_index
            add_var(ds, t, dims_, sym_array(c, t, shape_, 'int', INT32), tattrs)
    if edge_coords and nedge is None and edge_coords == 'without-edge-dimension':
        # a mesh that names edge coordinate variables although it defines no edge dimension and no edge table
        nedge = sym_size(c, 'nedge', 0)
    if edge_coords and nedge is not None:
        mesh_attrs['edge_coordinates'] = 'edge_x edge_y'
        add_var(ds, 'edge_x', ('nedge',), sym_array(c, 'edge_x', (nedge,), 'floatnan'), coord=is_coord)
        add_var(ds, 'edge_y', ('nedge',), sym_array(c, 'edge_y', (nedge,), 'floatnan'), coord=is_coord)
    if face_coords:
        add_var(ds, 'face_x', ('nface',), sym_array(c, 'face_x', (nface,), 'floatnan'), coord=is_coord)
        add_var(ds, 'face_y', ('nface',), sym_array(c, 'face_y', (nface,), 'floatnan'), coord=is_coord)
    if latitude_first:
        # a file that lists the latitude variable before the longitude variable in node_coordinates / face_coordinates, with CF attributes
        # saying so: the first-listed variable is still the first coordinate of every vertex and centre (names are labels, not meanings)
        for first, second in (('node_x', 'node_y'), ('face_x', 'face_y'), ('edge_x', 'edge_y')):
            if first in ds._vars:
                ds._vars[first].attrs.update({'standard_name': 'latitude', 'units': 'degrees_north'})
                ds._vars[second].attrs.update({'standard_name': 'longitude', 'units': 'degrees_east'})
    for ex in extra:
        name, vdims, vkind = (tuple(ex) + ('V',))[:3]
        sizes = dict(ds._sizes())
        shape = tuple(sizes[d] if d in sizes else sym_size(c, f'n_{d}', 0) for d in vdims)
        add_var(ds, name, vdims, sym_array(c, 'data_' + str(name), shape, vkind))
    ds._vars['mesh'].attrs = dict(mesh_attrs)
    shapes = {'face': (nface,), 'node': (nnode,)}
    dims = {'face': ('nface',), 'node': ('nnode',)}
    if nedge is not None:
        shapes['edge'] = (nedge,)
        dims['edge'] = ('nedge',)
    ds.info = {'convention': 'UGrid', 'nface': nface, 'nnode': nnode, 'nedge': nedge, 'maxn': maxn,
               'shape': shapes, 'dims': dims, 'edges': edges}
    c.assumptions_used.add(ASSUMPTIONS['ugrid'])
    return ds


BUILDERS = {
    'CFGrid1D': ('emsarray.conventions.grid', 'CFGrid1D', cf1d),
    'CFGrid2D': ('emsarray.conventions.grid', 'CFGrid2D', cf2d),
    'ShocSimple': ('emsarray.conventions.shoc', 'ShocSimple', shoc_simple),
    'ShocStandard': ('emsarray.conventions.shoc', 'ShocStandard', shoc_standard),
    'UGrid': ('emsarray.conventions.ugrid', 'UGrid', ugrid),
}


def make_convention(it, c, convention, **kw):
    from pyvc.api import cls
    mod, name, builder = BUILDERS[convention]
    order = kw.pop('coordinate_order', None)
    explicit = kw.pop('explicit_names', False)
    ds = builder(c, **kw)
    klass = cls(it, mod, name)
    ctor = {}
    if explicit:
        # the coordinate variables named by the caller (the documented route for files without CF attributes): CFGrid(dataset, latitude=..., longitude=...)
        ctor['latitude'], ctor['longitude'] = ds.info['lat'], ds.info['lon']
    if order is not None:
        # ArakawaC given its coordinate names as a mapping, listed in the caller's order (any order is legal for a mapping)
        kinds = cls(it, 'emsarray.conventions.arakawa_c', 'ArakawaCGridKind')
        names = {'face': ('y_centre', 'x_centre'), 'left': ('y_left', 'x_left'), 'back': ('y_back', 'x_back'), 'node': ('y_grid', 'x_grid')}
        ctor['coordinate_names'] = {it.getattr(kinds, k): names[k] for k in order}
    conv = it.instantiate(klass, [ds], ctor)
    return ds, conv


def kind_member(it, convention, kind):
    """The grid-kind enum member of a convention."""
    from pyvc.api import cls
    mod, en = {
        'CFGrid1D': ('emsarray.conventions.grid', 'CFGridKind'),
        'CFGrid2D': ('emsarray.conventions.grid', 'CFGridKind'),
        'ShocSimple': ('emsarray.conventions.grid', 'CFGridKind'),
        'ShocStandard': ('emsarray.conventions.arakawa_c', 'ArakawaCGridKind'),
        'ArakawaC': ('emsarray.conventions.arakawa_c', 'ArakawaCGridKind'),
        'UGrid': ('emsarray.conventions.ugrid', 'UGridKind'),
    }[convention]
    e = cls(it, mod, en)
    return it.getattr(e, kind)


def native_index(convention, kind_member_, idx):
    """The convention's native index value for grid-kind member + integer components (spec side)."""
    if convention in ('CFGrid1D', 'CFGrid2D', 'ShocSimple'):
        return tuple(idx)
    return (kind_member_,) + tuple(idx)


FILL_INT = -999


def ugrid_mesh(c, *, maxn=4, fill='int_fill', start_index=0, transposed=False, **kw):
    """A UGRID dataset whose face_node_connectivity *encodes an abstract mesh*: face f has count(f) in [3, maxn] nodes
    node(f, 0..count-1) in [0, nnode); trailing entries are missing, written as ``fill``:
      'none'     -> every face has maxn nodes, integer table without fill value
      'int_fill' -> integer table, missing entries = _FillValue attribute (-999)
      'nan'      -> float table, missing entries = NaN
    stored values are node + start_index; ``transposed`` stores the table as (maxn, nface).
    VALID-UGRID-MESH is this predicate."""
    ds = ugrid(c, start_index=start_index, transposed=transposed, kw_maxn=maxn, **kw)
    nface, nnode = ds.info['nface'], ds.info['nnode']
    node = c.fresh_fn('mesh_node', z3.IntSort(), z3.IntSort(), z3.IntSort())
    count = c.fresh_fn('mesh_count', z3.IntSort(), z3.IntSort())
    si = start_index or 0

    def cnt(f):
        k = count(zint(f))
        cc = core.ctx()
        if fill == 'none':
            cc.assume(k == maxn)
        else:
            cc.assume(z3.And(k >= 3, k <= maxn))
        return mk_int(k)

    def nd(f, col):
        v = node(zint(f), zint(col))
        core.ctx().assume(z3.And(v >= 0, v < zint(nnode)))
        return mk_int(v)

    def elem(f, col):
        present = mk_bool(zint(col) < zint(cnt(f)))
        if fill == 'nan':
            return SFloat(s_ite(present, FIN, NAN), nd(f, col) + si)
        if fill == 'int_fill':
            return s_ite(present, nd(f, col) + si, FILL_INT)
        return nd(f, col) + si
    if transposed:
        arr = NDArray((maxn, nface), lambda i: elem(i[1], i[0]), FLOAT64 if fill == 'nan' else INT32)
        dims = ('maxn', 'nface')
    else:
        arr = NDArray((nface, maxn), lambda i: elem(i[0], i[1]), FLOAT64 if fill == 'nan' else INT32)
        dims = ('nface', 'maxn')
    attrs = dict(ds._vars['face_node'].attrs)
    if fill == 'int_fill':
        attrs['_FillValue'] = FILL_INT
    # fill == 'nan' is what xarray hands over after decoding an integer table: float data, the file's type and fill value in .encoding
    ds._vars['face_node'] = Variable(dims, arr, attrs, {'dtype': INT32, '_FillValue': FILL_INT} if fill == 'nan' else {})
    ds.info.update({'maxn': maxn, 'mesh_node': nd, 'mesh_count': cnt, 'fill': fill})
    c.assumptions_used.add('VALID-UGRID-MESH: faces have 3..max_nodes nodes, listed first, indexes in range (after start_index); '
                           'missing entries use the declared fill representation')
    return ds


BUILDERS['ArakawaC'] = ('emsarray.conventions.arakawa_c', 'ArakawaC', shoc_standard)
BUILDERS['UGridMesh'] = ('emsarray.conventions.ugrid', 'UGrid', ugrid_mesh)
