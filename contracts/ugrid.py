"""Contracts on Mesh2DTopology helpers used modularly."""
from __future__ import annotations

import z3

from pyvc import core
from pyvc.contract import Contract
from pyvc.core import mk_int, zint


def _sensible_fill_value(it, a):
    """int('9' * (digits(max_count) + 1)): a value of the form 10^k - 1 strictly larger than every node / slot count.
    (Verified against the real body by C10 scenario `sensible_fill_value exceeds every index`.)"""
    c = core.ctx()
    topo = a['self']
    nodes = it.getattr(topo, 'node_count')
    faces = it.getattr(topo, 'face_count')
    maxn = it.getattr(topo, 'max_node_count')
    fv = c.fresh_int('sensible_fill')
    c.assume(fv > nodes)
    c.assume(fv > faces * maxn)
    c.assume(fv >= 99)
    return fv


CONTRACTS = [
    Contract('emsarray.conventions.ugrid', 'Mesh2DTopology.sensible_fill_value', post=_sensible_fill_value,
             verified_by='C10 scenario sensible_fill_value (symbolic counts, case split on the digit count)'),
]
FILL_KEY = CONTRACTS[0].key
